"""Generate /verif/MANIFEST.json from one table (python -m mc.manifest)."""

from __future__ import annotations

import json
import os

from . import common

PY = "PYTHONDONTWRITEBYTECODE=1 /venv/bin/python"

# id -> (level category, engine, technique, level text, level note, design section)
CHECKS = {
    "C01": (
        "exploration", "engine",
        "stateless exhaustive enumeration of (grammar x context x trivia x modifier x input x start position) executions; relational oracle interpreter == generated module",
        "Every expression kind in every nesting context (48 contexts that force 'inner construct commits, outer construct fails', and contexts composed with contexts), with stack operations, tags, all rule modifiers and trivia configurations, is run on every short input in both interpreters and in the modules generated from them; "
        "the generated module must compile, be byte-identical on regeneration, and return exactly the interpreter's tree (names, spans, nesting, tags) or fail with the same furthest_pos. Added families: every repetition bound incl. zero counts, NEWLINE, the skip idiom in eleven templates, explicitly named non-silent WHITESPACE/COMMENT, literals made of regex metacharacters, implicit rules that push, pop or read the stack, recursive grammars, repetitions over operands that match empty and still terminate, unparenthesised postfix chains, every built-in rule, and rule names that collide with generated identifiers or that Enum reserves (systematic).",
        "Trusted: CPython exec, the tuple canonicalisation of Pairs. No reference model is needed (the property is relational). Not covered: larger grammars; bundled real grammars are compared the same way in C08.",
        "5/C01",
    ),
    "C02": (
        "exploration", "engine",
        "stateless exhaustive enumeration of (grammar x optimizer configuration x input) executions, one forked child per configuration; relational oracle optimised == optimizer=None",
        "Grammars biased to what the passes pattern-match on (squashable choices incl. prefix-overlapping literals, (!X ~ ANY)* shapes, bounded repetitions, silent rules with choice and sequence bodies, explicit WHITESPACE/COMMENT references, a user rule SKIP, tagged groups, built-ins), "
        "x 278 optimizer configurations (DEFAULT_OPTIMIZER, the pipeline once and twice, each pass alone, all pass sequences of length 2-3, all 120 permutations) x every short input; the eight main configurations are also compared through generate(). The shared families (all repetition bounds, NEWLINE, skip idiom under every modifier and with case-insensitive stops, metacharacter literals) run under the main configurations. "
        "Same success/failure and same tree (incl. tags) as optimizer=None is required; constructing a parser must not raise.",
        "Trusted: process isolation by fork (the baseline child never builds an Optimizer before it has finished). The property's 'random subsets/permutations/repetitions' is replaced by this exhaustive bounded configuration set. Failure positions are not compared.",
        "5/C02",
    ),
    "C03": (
        "model_checking", "engine",
        "stateless exhaustive enumeration of (grammar x input) executions of the unoptimised interpreter in lock-step with an executable reference PEG model",
        "Every well-formed expression up to n nodes over the core operators, as a normal and as a silent rule body, is run on every input up to length L in the unoptimised interpreter and compared (accept/reject and full tree) with the reference evaluator, "
        "which is a persistent-state big-step transcription of pest's semantics validated on the pest-derived samples of the repository's own suite. Small grammars x short inputs exhaustively is the first half of the property's quantifier; added families reach what the size bound cannot: every repetition bound up to 3 in four contexts, NEWLINE on \\r/\\n inputs, the empty literal, metacharacter literals, recursive grammars, three contexts deep, unparenthesised postfix chains.",
        "Trusted: mc/refpeg.py (validated on 127 pinned pest-suite samples), the conservative printer, CPython. Not covered: grammars/inputs beyond the bound, the 'larger ones sampled' clause, recursion.",
        "5/C03",
    ),
    "C04": (
        "model_checking", "engine",
        "stateless exhaustive enumeration of (grammar x trivia configuration x modifier x input) executions in all four modes in lock-step with the reference PEG model",
        "Start-rule bodies up to n nodes over literals and @ $ ! _ helper rules (five helper packs with modifier nesting depth 3-4), every start modifier, eleven WHITESPACE/COMMENT configurations (incl. a COMMENT that starts with a WHITESPACE character, one that calls a non-atomic rule, non-silent ones named explicitly) and every input over the letters plus the trivia symbols "
        "(so trivia is leading, between, trailing, inside atomic spans and unterminated) are run in IU, GU, IO and GO and compared - spans, inner pairs, positions of non-silent trivia pairs - with the reference evaluator. Added: the skip idiom under every modifier, rules with their own atomicity called inside abandoned alternatives / predicates (atomic depth must be restored), contexts composed with contexts over the full terminal set, implicit rules that call non-atomic rules, recursive grammars under whitespace, a rule first reached through a wrapper of another atomicity.",
        "Trusted: mc/refpeg.py (skip placement, atomicity and pair visibility transcribed from pest's generator/ParserState; validated on the pinned pest-suite samples). Helper packs are fixed, not enumerated. Not covered: larger bodies, longer inputs.",
        "5/C04",
    ),
    "C05": (
        "model_checking", "engine",
        "stateless exhaustive enumeration of stack-operation grammars x inputs in four modes in lock-step with the reference model (persistent stack), plus the ParserState BFS of C09 for the history half",
        "Template PRE ~ W[INNER ~ FAILER] ~ PEEK_ALL ~ EOI: the input suffix that lets the parse succeed is the stack content, so the stack after every abandoned alternative, optional, repetition iteration and predicate is observable through parse(). "
        "INNER ranges over all expressions up to k nodes over the seven stack operations and four PEEK slices. Outcome and spans are compared with the reference evaluator in all four modes; any exception other than PestParsingError is a violation, also where the model is UNSPEC (empty-stack PEEK/POP). Added: repetitions whose operand succeeds without consuming input (DROP*, POP of an empty entry), stack operations next to implicit rules that push before they can fail or that pop, two levels of backtracking each holding a stack operation, recursive rules with stack operations before and after the recursive part.",
        "Trusted: mc/refpeg.py stack semantics (pest's stack_push/peek/pop/drop/match_peek_slice; restore-on-error for every abandoned attempt). Not covered: deeper INNER, implicit trivia in this family.",
        "5/C05",
    ),
    "C06": (
        "exploration", "engine",
        "stateless exhaustive enumeration of executions (C01 families x every start position x 4 modes, plus bundled grammars); state invariants on every returned tree",
        "Every successful parse of the C01 families (all operators, contexts, stack terminals, tags, modifiers, trivia) at every start position in all four modes, plus the bundled grammars on their example files, is walked through the public Pairs/Pair/Span/Stream API and "
        "checked against the invariants the property lists (bounds, text, child order/containment, names, tags, tokens(), flatten(), single root, dump/dumps agreement).",
        "Trusted: the invariant checker (mc/checks/c06.py). No model needed: the property is an invariant on outputs. Not covered: larger grammars, longer inputs.",
        "5/C06",
    ),
    "C07": (
        "exploration", "engine",
        "stateless exhaustive enumeration of executions (C01 families x 4 modes); oracle: outcome type, repeatability, watchdog",
        "Every (grammar, rule, input) of the C01 families - chosen because escaping exceptions live in uncommon paths such as an empty stack, zero iterations or input ending mid-construct - is parsed twice in each mode; "
        "any outcome other than Pairs/PestParsingError, any difference between the two calls (tree, or furthest position and expected/unexpected sets) and any call exceeding the watchdog is a violation.",
        "Trusted: CPython. Termination is only checked up to a 20 s watchdog; recursion depth is bounded by construction (one recursive template, inputs <= 5).",
        "5/C07",
    ),
    "C08": (
        "exploration", "engine",
        "exhaustive enumeration of (rewrite site x rewrite kind) over the bundled grammars x a fixed finite corpus incl. all prefixes; metamorphic oracle rewritten == original",
        "Sites are read off the meta-grammar's own parse tree of each bundled .pest file (every untagged term, every rule-body / parenthesised / PUSH expression, every run of >= 3 sequence terms or alternatives); each site gets redundant parentheses, (e)|(e), ((e)~NEVER)|(e), (!(e)~NEVER)|(e), "
        "extraction into a fresh silent rule, and every re-association split; combinations: a second rewrite applied to the result of a first, one kind at every literal at once, (thorough) two nearby sites. The operand of a term with prefix/postfix operators or a tag is a site of its own. Two small grammars written for the check add the constructs no bundled grammar has (entry-replacing stack operations, case-insensitive stops, tags, bounded repetitions). The rewritten grammar must give the same outcome and tree as the original on every corpus input (examples, pest-derived test inputs, short valid/invalid inputs and all their prefixes) in the same mode.",
        "Trusted: the text surgery is always parenthesised; the NEVER literal is checked absent from the corpus. Single rewrites only (no pairs). quick runs the generated modes only for the six small grammars.",
        "5/C08",
    ),
    "C09": (
        "model_checking", "bfs",
        "explicit-state BFS over the real Stack / SnapshottingInt / ParserState objects in lock-step with a full-copy reference model",
        "Every history of push/pop/clear/snapshot/restore/drop (and checkpoint/ok/restore over the four ParserState components, with properly nested atomic_checkpoint blocks and pair hiding) up to the depth bound is executed on the real objects; "
        "after every transition contents, len, empty, peek and indexing are compared with a reference that stores full copies. States are canonicalised (values renamed, internals included) and counted. "
        "This is the property's own quantifier ('all operation sequences up to a length bound'), decided exhaustively.",
        "Trusted: the 40-line full-copy reference; CPython; value-renaming symmetry (the code never inspects values). Not covered: histories longer than the bound ('longer random ones').",
        "5/C09",
    ),
    "C10": (
        "model_checking", "texts",
        "exhaustive enumeration of grammar texts (all token sequences up to K tokens, all rule headers, all layouts of accepted bodies) against pest's meta-grammar executed by the reference PEG model",
        "The oracle is tests/grammars/meta.pest itself, loaded by a bootstrap parser and executed by mc/refpeg.py ('pest's meta-grammar under pest's semantics'); the bootstrap is discharged by a fixpoint check (the meta-grammar accepts its own text and denotes what the bootstrap read) and by agreement on all bundled grammars. "
        "Every text is accepted by from_grammar iff the oracle accepts it, and when both accept, names, modifiers, docs and the expression structure (precedence, prefix/postfix chains, bounds, tags, slices, decoded literals) must equal the structure read off the meta-grammar's parse tree - also after the same text has been loaded with the default optimizer in between. Families added: comment shapes, expression sites, every escape form and raw control characters in every kind of literal.",
        "Trusted: refpeg's execution of meta.pest; the adapter from Expression objects to the harness AST (a refactor that renames fields gives HARNESS-ERROR, not VIOLATION). Not covered: bodies longer than K tokens except the ~250 hand-picked deeper texts and the bundled files.",
        "5/C10",
    ),
    "C11": (
        "fault_enumeration", "texts",
        "exhaustive fault enumeration: every short string over the grammar alphabet, every short token soup, every truncation / single-character fault of every bundled grammar, every escape form; outcome-type oracle",
        "Each text is loaded with and without the default optimizer; the only admissible outcomes are a Parser or a PestGrammarError whose str() renders and whose line:column exists in the text. "
        "Families: all short strings and token soups, every prefix / single-character deletion of the bundled grammars, escape forms, pumped units (openers, unterminated literals/comments, chains of postfix operators) repeated 25-400 times, numbers of up to 20,000 digits, odd characters (lone surrogates, NUL, Unicode separators, non-ASCII digits) at 35 places, every range over 38 bounds, letters whose case forms are longer than one character, chains of 25-200 rules that refer to the next one twice. Texts that can exhaust memory or time run in a forked child with an address-space limit and a hard timeout.",
        "Trusted: CPython. Termination is checked up to a 20 s watchdog. One open known finding (huge repetition counts unrolled by the optimizer).",
        "5/C11",
    ),
    "C12": (
        "exploration", "enum",
        "complete enumeration of the code space U+0000..U+10FFFF for every expression of a family of character terminals in all four modes; integer-comparison oracle",
        "For ranges, single-character literals, ASCII_*/NEWLINE/ANY and the character classes the optimizer merges them into, every one of the 1,114,112 code points is parsed in the interpreter, the optimised interpreter and both generated modules and compared with membership computed from the definition; "
        "Unicode property rules must agree across the four modes; every \\xHH and \\u{H..} escape value must denote exactly its code point. The input domain is finite and fully enumerated (exhaustive: true); the expression family is a fixed list, plus 116 choices of a range with an adjacent/overlapping literal or range and a case-folding history family (literals that Unicode folding would identify, built in one process in both orders) judged on code-point windows.",
        "Trusted: integer-comparison oracle; `regex` for the Unicode tables. CI literals judged on ASCII input only; property rules cross-mode only (both as the statement says).",
        "5/C12",
    ),
    "C13": (
        "exploration", "engine",
        "stateless exhaustive enumeration of rejected executions (C01 families, alphabet + newline + non-ASCII, every start position, 4 modes); invariants on the exception",
        "Every rejected (grammar, input, start position) is inspected: furthest_pos in range (or -1), expected/unexpected keys are grammar rules or built-ins, str()/detailed_message()/expected()/expected_labels() render, "
        "and the line:column and source line shown - and error_context() - are those of furthest_pos computed by counting newlines. Failures at offset 0, at end of input, on empty lines, after a trailing newline and inside predicates all occur in the enumerated space.",
        "Trusted: newline arithmetic oracle; regex extraction of L:C from the rendered message. Not covered: line breaks other than \\n.",
        "5/C13",
    ),
    "C14": (
        "exploration", "enum",
        "exhaustive enumeration of all texts over a 3-4 symbol alphabet (incl. newline) x all offsets x all spans against integer arithmetic on the text",
        "Every text up to the length bound, every offset 0..len and every span is evaluated through Position/Span/Pair and compared with line/column computed by counting newlines; injectivity of offset->line/col is checked per text; every order of three questions on one text object; six long texts incl. the thousands of sibling pairs of a real parse asked in reverse order; two-text histories (query A, drop it, build B of the same length - usually at A's address - and query B) for every pair of short texts. "
        "The domain is finite and fully enumerated, which is the exhaustive half of the property's quantifier.",
        "Trusted: str.count/rfind arithmetic oracle. Not covered: texts longer than the bound, the 'sampled long and non-ASCII texts' clause, line breaks other than \\n.",
        "5/C14",
    ),
    "C15": (
        "model_checking", "sched",
        "explicit-state search over all API histories (each replayed in a forked pristine process) + exhaustive exploration of thread schedules of real threads under a cooperative settrace scheduler (preemption-bounded)",
        "Histories: every sequence of up to d operations from {create unoptimised / default-optimised / custom-pass parser for g1 or g2 (second pool: g3 with implicit WHITESPACE, a rule called SKIP, skip idioms and a tagged reference; g4 with skip idioms evaluated twice per parse; g5 with a choice-bodied WHITESPACE; g6/g7 with case-insensitive literals that differ in non-ASCII case), generate a module, succeeding parse, failing parse} is replayed from scratch in its own process; all objects of the history and fresh ones created after it are probed and compared with single-parser processes. "
        "Schedules: two threads sharing one parser (interpreter, generated, optimised with lazily compiled regex, lazily unrolled repetition) and parse || from_grammar: every schedule with at most k preemptions at line granularity; each thread must observe what it observes sequentially. The first schedule is run twice to prove determinism.",
        "Trusted: sys.settrace line events as scheduling points (switches inside one line and inside C calls are not enumerated); fork gives a pristine process. At most two threads and k preemptions. A free-running 8-thread pass is only a smoke test.",
        "5/C15",
    ),
    "C16": (
        "exploration", "engine",
        "stateless exhaustive enumeration of (grammar x text x every start position x 4 modes); metamorphic oracle parse(text, k) == shift(parse(text[k:]), k)",
        "SOI-free members of the C01 families, extended with regex-backed terminals (ASCII_HEX_DIGIT, a squashable choice, (!X ~ ANY)*), are parsed at every k in 0..len and on the suffix; trees and furthest_pos must coincide after shifting. "
        "A regex anchored or searched from the wrong place, a lookbehind into text before start_pos, or a position computed from 0 shows as a difference.",
        "Trusted: CPython. Not covered: larger grammars, longer texts.",
        "5/C16",
    ),
    "C17": (
        "exploration", "enum",
        "exhaustive enumeration of a bounded JSON document generator (+ all proper prefixes, layouts) and of all calculator token strings up to N tokens; independent reference oracles (json.loads; a precedence-table evaluator)",
        "JSON: every generated document in four whitespace layouts is parsed by both bundled grammars in all four modes and the tree is mirrored against json.loads; every proper prefix must be rejected; the same str object is parsed a second time on the same parser; every whitespace character RFC 8259 / the calculator grammars allow stands at every gap. "
        "Calculator: every well-formed token string up to N tokens (two layouts) whose every bracketing evaluates safely is evaluated by the three bundled implementations - with their parser modules generated in memory from the current tree, optimised and unoptimised - and compared with an independent recursive-descent evaluator of the documented precedence table.",
        "Trusted: json.loads, Python integer arithmetic, the 40-line reference evaluator. The generators are bounded (depth 3 / width 2; N tokens); nothing is sampled.",
        "5/C17",
    ),
    "C18": (
        "model_checking", "enum",
        "exhaustive enumeration of operator tables x well-formed token streams against (1) a transcription of pest's binding-power algorithm and (2) brute force over all trees satisfying the statement's constraints",
        "All 8,828 tables (0-2 infix operators with both associativities, 0-2 prefix and 0-2 postfix operators, precedences 0-2 with repetition or all distinct, rule names optionally shared between the prefix and the infix/postfix table, associativity given through LEFT_ASSOC/RIGHT_ASSOC, falsy operand nodes, small tables again with tagged pairs, one parser instance per table) x all well-formed streams up to N tokens are run through a PrattParser subclass whose hooks build tuples; the tree must equal the reference algorithm's and consume the stream. "
        "Where the statement alone determines the tree (distinct precedences, no weak prefix after a stronger infix) a brute-force search over all trees confirms the reference (self-check) - so the oracle does not rest on one parsing algorithm.",
        "Trusted: the 40-line transcription of pest::pratt_parser and the constraint checker, cross-checked against each other on every decided case. Streams longer than N tokens are not covered.",
        "5/C18",
    ),
}

NOT_BUILT_REASON = "check not built yet in this session (planned, see DESIGN.md section 5)"
ALL = [f"C{i:02d}" for i in range(1, 19)]


def build() -> dict:
    with open("/root/.vp/BASELINE.json") as fh:
        baseline_cmd = json.load(fh)["cmd"]
    checks = []
    for pid in ALL:
        if pid not in CHECKS:
            continue
        level, engine, technique, text, note, ref = CHECKS[pid]
        checks.append({
            "property_id": pid,
            "quick_cmd": f"{PY} -m mc.run {pid} --tier quick",
            "thorough_cmd": f"{PY} -m mc.run {pid} --tier thorough",
            "evidence_file": f"/verif/evidence/{pid}.json",
            "replay_cmd_template": f"{PY} -m mc.replay {{path}}",
            "engine": engine,
            "level_claimed": {"category": level, "text": text, "design_ref": f"DESIGN.md section {ref}"},
            "level_note": note,
            "technique": technique,
        })
    engines = {}
    for pid, row in CHECKS.items():
        engines.setdefault(row[1], []).append(pid)
    kinds = {
        "bfs": "explicit-state breadth-first search over real objects with canonicalised states and a lock-step reference model (mc/bfs.py)",
        "engine": "stateless exhaustive enumeration of (grammar x input x start position x execution mode) executions in forked pristine workers, judged by the executable reference PEG model or a relational oracle (mc/engine.py, mc/refpeg.py)",
        "sched": "cooperative sys.settrace scheduler that owns every line-level switch point of real threads; iterative preemption bounding (mc/sched.py)",
        "texts": "exhaustive enumeration of grammar texts / token sequences / fault positions judged by the meta-grammar executed under the reference model (mc/metaref.py)",
        "enum": "exhaustive enumeration of a finite input domain against an independent arithmetic/structural oracle",
    }
    return {
        "version": 1,
        "setup_cmd": f"{PY} -m mc.setup",
        "hooks": {
            "guard": common.GUARD,
            "enable": f"no source hooks: checks drive the public API of the working tree ($VERIF_REPO/src, default /repo/src); {common.GUARD}=1 is exported by the harness but nothing in /repo reads it",
            "baseline_off_cmd": baseline_cmd.replace(" --junitxml=<file>", ""),
            "source_commits": [],
            "add_only": True,
        },
        "engines": [
            {"name": k, "path": f"/verif/mc/{k}.py" if os.path.exists(os.path.join(common.VERIF, "mc", f"{k}.py")) else "/verif/mc", "serves_properties": sorted(v), "kind_free_text": kinds.get(k, k)}
            for k, v in sorted(engines.items())
        ],
        "checks": checks,
        "not_applicable": [{"property_id": pid, "reason": NOT_BUILT_REASON} for pid in ALL if pid not in CHECKS],
        "notes": "Technique family: model checking = bounded exhaustive exploration of the real code against an executable reference model. "
                 "Exit 0 = held on everything explored (KNOWN-FINDING lines possible), 1 = VIOLATION line(s), 2 = HARNESS-ERROR (never with a VIOLATION line). "
                 "VERIF_SEED only permutes scheduling order and sample choice; the explored set and all verdicts are seed-independent. "
                 "VERIF_REPO points a check at another checkout (used for seeded-change experiments).",
    }


def main() -> int:
    m = build()
    with open(os.path.join(common.VERIF, "MANIFEST.json"), "w") as fh:
        json.dump(m, fh, indent=1)
    print(f"MANIFEST.json: {len(m['checks'])} checks, {len(m['not_applicable'])} not_applicable")
    return 0


if __name__ == "__main__":
    raise SystemExit(main())
