"""Run the checks against one seeded change: python -m mc.seedtest <seeded dir> [props...] [--tier quick] [--base <commit>] [--no-tests].

Creates a scratch worktree of /repo's HEAD outside /repo and /verif, applies the patch, runs the
repository's test suite and the demonstration there, runs the given checks with VERIF_REPO pointing
at the scratch tree, removes the worktree, and prints a JSON summary.  Nothing is written to /repo.
"""

from __future__ import annotations

import json
import os
import re
import subprocess
import sys
import tempfile


def sh(cmd, cwd=None, env=None, timeout=3600):
    p = subprocess.run(cmd, shell=True, cwd=cwd, env=env, capture_output=True, text=True, timeout=timeout)
    return p.returncode, p.stdout + p.stderr


def main(argv):
    tier = "quick"
    if "--tier" in argv:
        i = argv.index("--tier")
        tier = argv[i + 1]
        argv = argv[:i] + argv[i + 2:]
    base = "HEAD"
    if "--base" in argv:   # a seed written against an older commit (its target code was replaced by a later fix)
        i = argv.index("--base")
        base = argv[i + 1]
        argv = argv[:i] + argv[i + 2:]
    skip_tests = "--no-tests" in argv
    argv = [a for a in argv if a != "--no-tests"]
    sdir = os.path.abspath(argv[0])
    props = argv[1:] or [os.path.basename(sdir).split("-")[0]]
    scratch = tempfile.mkdtemp(prefix="pest_seed_", dir="/tmp")
    os.rmdir(scratch)
    res = {"seed": os.path.basename(sdir), "props": props, "tier": tier, "base": base}
    try:
        rc, out = sh(f"git -C /repo worktree add -q --detach {scratch} {base}")
        assert rc == 0, out
        env = dict(os.environ, PYTHONPATH=f"{scratch}/src", PYTHONDONTWRITEBYTECODE="1")
        rc, out = sh(f"/venv/bin/python {sdir}/demo.py", cwd=scratch, env=env)
        res["demo_without_change_exit"] = rc
        rc, out = sh(f"git apply {sdir}/patch.diff", cwd=scratch)
        res["patch_applies"] = rc == 0
        if rc != 0:
            res["apply_error"] = out[-400:]
            return res
        if not skip_tests:
            rc, out = sh("/venv/bin/python -m pytest -q -p no:cacheprovider --timeout=900 --continue-on-collection-errors 2>&1 | tail -1", cwd=scratch, env=env)
            res["tests"] = out.strip()
            sh("git checkout -- examples/calculator/parser.py examples/calculator/grammar_encoded_prec_parser.py examples/jsonpath/parser.py", cwd=scratch)
        rc, out = sh(f"/venv/bin/python {sdir}/demo.py", cwd=scratch, env=env)
        res["demo_with_change_exit"] = rc
        res["checks"] = {}
        for prop in props:
            env2 = dict(os.environ, VERIF_REPO=scratch, PYTHONDONTWRITEBYTECODE="1", VERIF_EVIDENCE_DIR=os.path.join(scratch, "_evidence"), VERIF_REPLAY_DIR=os.path.join(scratch, "_replays"))
            rc, out = sh(f"/venv/bin/python -m mc.run {prop} --tier {tier}", cwd="/verif", env=env2)
            viol = [l for l in out.splitlines() if l.startswith("VIOLATION")]
            first = ""
            for i, l in enumerate(out.splitlines()):
                if l.startswith("VIOLATION") and i + 1 < len(out.splitlines()):
                    first = out.splitlines()[i + 1].strip()[:500]
                    break
            details = [out.splitlines()[i + 1].strip()[:300] for i, l in enumerate(out.splitlines()) if l.startswith("VIOLATION") and i + 1 < len(out.splitlines())]
            wall = re.search(r"wall=([\d.]+)s", out)
            res["checks"][prop] = {"exit": rc, "violation_lines": len(viol), "first": first, "wall_s": float(wall.group(1)) if wall else None,
                                   "details": details[1:] if base != "HEAD" else [], "harness_error": next((l for l in out.splitlines() if l.startswith("HARNESS-ERROR")), None)}
    finally:
        sh(f"git -C /repo worktree remove --force {scratch}")
        sh(f"rm -rf {scratch}")
    return res


if __name__ == "__main__":
    print(json.dumps(main(sys.argv[1:]), indent=1))
