"""MANIFEST.setup_cmd: nothing is compiled or downloaded; check the binding and create output dirs."""

from __future__ import annotations

import os
import sys

from . import common


def main() -> int:
    common.bind_repo()
    import pest

    os.makedirs(common.EVIDENCE_DIR, exist_ok=True)
    os.makedirs(common.REPLAY_DIR, exist_ok=True)
    print(f"mc.setup: pest from {os.path.dirname(pest.__file__)}; python {sys.version.split()[0]}; workers {common.workers()}")
    return 0


if __name__ == "__main__":
    sys.exit(main())
