"""Grammar AST (plain tuples), printer to pest text, static well-formedness, enumeration.

Expressions:
  ('str', s) ('ci', s) ('range', lo, hi) ('ref', name)
  ('seq', (e, ...)) ('alt', (e, ...)) ('grp', e)
  ('opt', e) ('star', e) ('plus', e) ('exact', e, n) ('min', e, n) ('max', e, n) ('minmax', e, m, n)
  ('and', e) ('not', e)
  ('push', e) ('pushlit', s) ('peek',) ('pop',) ('drop',) ('peekall',) ('popall',) ('slice', a, b)
  ('tag', name, e)
A grammar is a tuple of rules (name, modifier, body), modifier in '', '_', '@', '$', '!'.
"""

from __future__ import annotations

import itertools
from functools import lru_cache

BUILTIN_NONNULL = {
    "ANY", "NEWLINE", "ASCII_DIGIT", "ASCII_NONZERO_DIGIT", "ASCII_BIN_DIGIT", "ASCII_OCT_DIGIT",
    "ASCII_HEX_DIGIT", "ASCII_ALPHA_LOWER", "ASCII_ALPHA_UPPER", "ASCII_ALPHA", "ASCII_ALPHANUMERIC", "ASCII",
}
BUILTIN_NULL = {"SOI", "EOI"}
BUILTINS = BUILTIN_NONNULL | BUILTIN_NULL

UNARY = ("grp", "bare", "opt", "star", "plus", "and", "not", "push")
COUNTED = ("exact", "min", "max", "minmax")


# ----------------------------------------------------------------------------- printing

def esc_str(s: str) -> str:
    out = []
    for ch in s:
        if ch == "\\":
            out.append("\\\\")
        elif ch == '"':
            out.append('\\"')
        elif ch == "\n":
            out.append("\\n")
        elif ch == "\t":
            out.append("\\t")
        elif ch == "\r":
            out.append("\\r")
        elif ord(ch) < 0x20 or ord(ch) > 0x7E:
            out.append("\\u{%04X}" % ord(ch))
        else:
            out.append(ch)
    return "".join(out)


def esc_char(c: str) -> str:
    if c == "\\":
        return "\\\\"
    if c == "'":
        return "\\'"
    if c == "\n":
        return "\\n"
    if c == "\t":
        return "\\t"
    if c == "\r":
        return "\\r"
    if ord(c) < 0x20 or ord(c) > 0x7E:
        return "\\u{%04X}" % ord(c)
    return c


# "bare" means the same as "grp" but is printed WITHOUT parentheses: ("plus", ("bare", ("exact", e, 2))) prints e{2}+ (a postfix chain)
ATOMS = {"str", "ci", "range", "ref", "grp", "bare", "push", "pushlit", "peek", "pop", "drop", "peekall", "popall", "slice"}


def _operand(e) -> str:
    """Print e as the operand of a prefix/postfix operator (parenthesised unless atomic)."""
    if e[0] in ATOMS:
        return to_pest(e)
    return "(" + to_pest(e) + ")"


def to_pest(e) -> str:
    k = e[0]
    if k == "str":
        return '"' + esc_str(e[1]) + '"'
    if k == "ci":
        return '^"' + esc_str(e[1]) + '"'
    if k == "range":
        return "'" + esc_char(e[1]) + "'..'" + esc_char(e[2]) + "'"
    if k == "ref":
        return e[1]
    if k == "seq":
        return " ~ ".join(("(" + to_pest(c) + ")") if c[0] in ("seq", "alt") else to_pest(c) for c in e[1])
    if k == "alt":
        return " | ".join(("(" + to_pest(c) + ")") if c[0] == "alt" else to_pest(c) for c in e[1])
    if k == "grp":
        return "(" + to_pest(e[1]) + ")"
    if k == "bare":
        return to_pest(e[1])
    if k == "opt":
        return _operand(e[1]) + "?"
    if k == "star":
        return _operand(e[1]) + "*"
    if k == "plus":
        return _operand(e[1]) + "+"
    if k == "exact":
        return _operand(e[1]) + "{%d}" % e[2]
    if k == "min":
        return _operand(e[1]) + "{%d,}" % e[2]
    if k == "max":
        return _operand(e[1]) + "{,%d}" % e[2]
    if k == "minmax":
        return _operand(e[1]) + "{%d,%d}" % (e[2], e[3])
    if k == "and":
        return "&" + _operand(e[1])
    if k == "not":
        return "!" + _operand(e[1])
    if k == "push":
        return "PUSH(" + to_pest(e[1]) + ")"
    if k == "pushlit":
        return 'PUSH_LITERAL("' + esc_str(e[1]) + '")'
    if k == "peek":
        return "PEEK"
    if k == "pop":
        return "POP"
    if k == "drop":
        return "DROP"
    if k == "peekall":
        return "PEEK_ALL"
    if k == "popall":
        return "POP_ALL"
    if k == "slice":
        a = "" if e[1] is None else str(e[1])
        b = "" if e[2] is None else str(e[2])
        return f"PEEK[{a}..{b}]"
    if k == "tag":
        return f"#{e[1]} = " + _operand(e[2])
    raise ValueError(e)


def grammar_text(rules) -> str:
    return "\n".join(f"{name} = {mod}{{ {to_pest(body)} }}" for name, mod, body in rules) + "\n"


# ----------------------------------------------------------------------------- analysis

def children(e):
    k = e[0]
    if k in ("seq", "alt"):
        return e[1]
    if k in UNARY or k in COUNTED:
        return (e[1],)
    if k == "tag":
        return (e[2],)
    return ()


def size(e) -> int:
    return 1 + sum(size(c) for c in children(e))


def refs(e, acc=None) -> set:
    acc = set() if acc is None else acc
    if e[0] == "ref":
        acc.add(e[1])
    for c in children(e):
        refs(c, acc)
    return acc


class Env:
    """Rule environment with memoised nullability."""

    def __init__(self, rules):
        self.rules = {name: (mod, body) for name, mod, body in rules}
        self._null: dict = {}
        self._busy: set = set()

    def nullable_rule(self, name: str) -> bool:
        if name in BUILTIN_NONNULL and name not in self.rules:
            return False
        if name in BUILTIN_NULL and name not in self.rules:
            return True
        if name not in self.rules:
            return True  # undefined: rejected elsewhere
        if name in self._null:
            return self._null[name]
        if name in self._busy:
            return True  # recursion: be conservative
        self._busy.add(name)
        r = self.nullable(self.rules[name][1])
        self._busy.discard(name)
        self._null[name] = r
        return r

    def nullable(self, e) -> bool:
        """May e succeed without consuming input? (conservative: True when unsure)"""
        k = e[0]
        if k in ("str", "ci"):
            return e[1] == ""
        if k == "range":
            return False
        if k == "ref":
            return self.nullable_rule(e[1])
        if k == "seq":
            return all(self.nullable(c) for c in e[1])
        if k == "alt":
            return any(self.nullable(c) for c in e[1])
        if k in ("grp", "bare", "plus", "push"):
            return self.nullable(e[1])
        if k == "tag":
            return self.nullable(e[2])
        if k in ("opt", "star", "max", "and", "not", "pushlit", "drop", "peekall", "popall", "slice"):
            return True
        if k == "exact":
            return e[2] == 0 or self.nullable(e[1])
        if k in ("min", "minmax"):
            return e[2] == 0 or self.nullable(e[1])
        if k in ("peek", "pop"):
            return False  # families only push non-empty strings; refpeg traps the rest dynamically
        raise ValueError(e)

    def expr_ok(self, e) -> bool:
        """No repetition over a nullable operand, no {0}, {,0}, m>n (the exclusions of C03/C07)."""
        k = e[0]
        if k in ("star", "plus", "exact", "min", "max", "minmax"):
            if self.nullable(e[1]):
                return False
            if k == "exact" and e[2] < 1:
                return False
            if k == "max" and e[2] < 1:
                return False
            if k == "minmax" and (e[2] > e[3] or e[3] < 1):
                return False
        return all(self.expr_ok(c) for c in children(e))


def well_formed(rules) -> bool:
    env = Env(rules)
    names = set(env.rules)
    graph = {}
    for name, (mod, body) in env.rules.items():
        rs = refs(body)
        for r in rs:
            if r not in names and r not in BUILTINS:
                return False
        graph[name] = {r for r in rs if r in names}
        if not env.expr_ok(body):
            return False
    # no recursion at all (families are recursion-free; the bounded-depth template is handled separately)
    state: dict = {}

    def cyc(n):
        if state.get(n) == 1:
            return True
        if state.get(n) == 2:
            return False
        state[n] = 1
        for m in graph[n]:
            if cyc(m):
                return True
        state[n] = 2
        return False

    if any(cyc(n) for n in graph):
        return False
    for t in ("WHITESPACE", "COMMENT"):
        if t in env.rules and env.nullable(env.rules[t][1]):
            return False
    return True


# ----------------------------------------------------------------------------- enumeration

U_CORE = (
    ("grp",), ("opt",), ("star",), ("plus",), ("exact", 2), ("min", 1), ("max", 2), ("minmax", 1, 2), ("and",), ("not",),
)


def apply_unary(u, e):
    if len(u) == 1:
        return (u[0], e)
    return (u[0], e) + tuple(u[1:])


def exprs_of_size(n: int, terminals: tuple, unary: tuple = U_CORE, binary: tuple = ("seq", "alt"), env: Env | None = None,
                  ternary: bool = False, _memo: dict | None = None) -> list:
    """All expressions with exactly n nodes (locally well-formed w.r.t. env)."""
    memo = {} if _memo is None else _memo
    key = n
    if key in memo:
        return memo[key]
    if n <= 0:
        return []
    if n == 1:
        out = list(terminals)
    else:
        out = []
        for child in exprs_of_size(n - 1, terminals, unary, binary, env, ternary, memo):
            for u in unary:
                e = apply_unary(u, child)
                if u[0] in ("star", "plus", "exact", "min", "max", "minmax") and env is not None and env.nullable(child):
                    continue
                out.append(e)
        for a in range(1, n - 1):
            b = n - 1 - a
            for x in exprs_of_size(a, terminals, unary, binary, env, ternary, memo):
                for y in exprs_of_size(b, terminals, unary, binary, env, ternary, memo):
                    for op in binary:
                        out.append((op, (x, y)))
        if ternary and n >= 4:
            for a in range(1, n - 2):
                for b in range(1, n - 1 - a):
                    c = n - 1 - a - b
                    if c < 1:
                        continue
                    for x in exprs_of_size(a, terminals, unary, binary, env, ternary, memo):
                        for y in exprs_of_size(b, terminals, unary, binary, env, ternary, memo):
                            for z in exprs_of_size(c, terminals, unary, binary, env, ternary, memo):
                                for op in binary:
                                    out.append((op, (x, y, z)))
    memo[key] = out
    return out


def exprs_upto(n: int, terminals: tuple, unary: tuple = U_CORE, binary: tuple = ("seq", "alt"), env: Env | None = None, ternary: bool = False) -> list:
    memo: dict = {}
    out = []
    for k in range(1, n + 1):
        out.extend(exprs_of_size(k, terminals, unary, binary, env, ternary, memo))
    return out


def strings_upto(alphabet: str, maxlen: int) -> list[str]:
    out = []
    for k in range(maxlen + 1):
        out.extend("".join(t) for t in itertools.product(alphabet, repeat=k))
    return out
