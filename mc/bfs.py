"""Explicit-state breadth-first explorer over real objects with a lock-step reference.

A *machine* describes one object under test:

    machine.new()                 -> (impl, ref)          initial state
    machine.enabled(impl, ref)    -> list of op names      (small finite menu)
    machine.apply(impl, ref, op)  -> None                  (mutates both; may raise from impl)
    machine.observe(impl)         -> value                 visible state of the implementation
    machine.expect(ref)           -> value                 what the reference says is visible
    machine.internal(impl)        -> value                 generic deep snapshot (state key only)

States are deduplicated on a canonical key (internal snapshot + reference) in which pushed
values are renamed in order of first occurrence; the code under test only moves values and
never inspects them, so states equal up to renaming have isomorphic futures.
"""

from __future__ import annotations

import hashlib
from typing import Any

from . import common


_NAMES: dict[type, tuple[str, ...]] = {}


def _field_names(obj) -> tuple[str, ...]:
    t = type(obj)
    names = _NAMES.get(t)
    if names is None:
        acc: list[str] = []
        for klass in t.__mro__:
            slots = klass.__dict__.get("__slots__", ())
            if isinstance(slots, str):
                slots = (slots,)
            acc.extend(x for x in slots if x not in ("__dict__", "__weakref__"))
        names = _NAMES[t] = tuple(sorted(set(acc)))
    if hasattr(obj, "__dict__"):
        return tuple(sorted(set(names) | set(obj.__dict__)))
    return names


def deep_snapshot(obj: Any, table: dict | None = None, _depth: int = 0) -> Any:
    """A generic structural snapshot of an object graph (no field name is hard-coded).

    If `table` is given, value tokens ('v<k>' strings) are renamed in order of first occurrence.
    """
    if obj is None or obj is True or obj is False:
        return obj
    t = type(obj)
    if t is str:
        if table is not None and obj[:1] == "v" and obj[1:].isdigit():
            r = table.get(obj)
            if r is None:
                r = table[obj] = f"v{len(table)}"
            return r
        return obj
    if t is int or t is float or t is bytes:
        return obj
    if _depth > 12:
        raise common.HarnessError("deep_snapshot: object graph too deep")
    if t is list or t is tuple:
        return tuple([deep_snapshot(x, table, _depth + 1) for x in obj])
    if t is dict:
        return tuple([(repr(k), deep_snapshot(v, table, _depth + 1)) for k, v in sorted(obj.items(), key=lambda kv: repr(kv[0]))])
    if t is set or t is frozenset:
        return tuple(sorted(repr(x) for x in obj))
    fields = []
    for n in _field_names(obj):
        try:
            v = getattr(obj, n)
        except AttributeError:
            continue
        fields.append((n, deep_snapshot(v, table, _depth + 1)))
    return (t.__name__, tuple(fields))


def key_of(machine, impl, ref) -> bytes:
    table: dict = {}
    k = (deep_snapshot(machine.internal_object(impl), table), deep_snapshot(ref, table))
    return hashlib.blake2b(repr(k).encode(), digest_size=10).digest()


def replay(machine, trace):
    impl, ref = machine.new()
    for op in trace:
        machine.apply(impl, ref, op)
    return impl, ref


def step(machine, trace, op):
    """Rebuild the state reached by `trace` on fresh real objects, apply op; return (impl2, ref2, violation-or-None).

    Live objects are not copied: every transition is executed on objects rebuilt by replaying
    the history (cheaper than deepcopy for these objects, and frontier entries are just traces).
    """
    i2, r2 = replay(machine, trace)
    try:
        machine.apply(i2, r2, op)
    except common.HarnessError:
        raise
    except Exception as exc:  # noqa: BLE001
        return i2, r2, {"kind": f"exc:{type(exc).__name__}", "detail": str(exc)[:200]}
    try:
        got = machine.observe(i2)
    except Exception as exc:  # noqa: BLE001
        return i2, r2, {"kind": f"exc-observe:{type(exc).__name__}", "detail": str(exc)[:200]}
    want = machine.expect(r2)
    if got != want:
        return i2, r2, {"kind": "state", "expected": want, "got": got}
    return i2, r2, None


def explore(machine, frontier, depth, seen=None):
    """BFS from the given frontier (a list of histories) for `depth` more levels."""
    seen = set() if seen is None else seen
    transitions = 0
    per_op: dict[str, int] = {}
    violations = []
    levels = []
    for _ in range(depth):
        nxt = []
        for trace in frontier:
            impl, ref = replay(machine, trace)
            for op in machine.enabled(impl, ref):
                i2, r2, bad = step(machine, trace, op)
                transitions += 1
                per_op[op] = per_op.get(op, 0) + 1
                if bad is not None:
                    if len(violations) < 200:
                        violations.append({**bad, "ops": list(trace) + [op]})
                    else:
                        violations.append(None)
                    continue
                k = key_of(machine, i2, r2)
                if k not in seen:
                    seen.add(k)
                    nxt.append(trace + (op,))
        frontier = nxt
        levels.append(len(nxt))
        if not frontier:
            break
    return {"seen": seen, "transitions": transitions, "per_op": per_op, "violations": violations,
            "levels": levels, "frontier": frontier}


def _worker(payload):
    machine, traces, depth = payload
    frontier = [tuple(tr) for tr in traces]
    seen = {key_of(machine, *replay(machine, tr)) for tr in frontier}
    res = explore(machine, frontier, depth, seen)
    res["frontier"] = len(res["frontier"])
    return res


def run(machine, depth: int, split_at: int | None = None):
    """Full BFS to `depth`; levels beyond `split_at` are distributed over forked workers."""
    impl, ref = machine.new()
    seen = {key_of(machine, impl, ref)}
    first = explore(machine, [()], min(depth, split_at) if split_at else depth, seen)
    out = {"states": len(seen), "transitions": first["transitions"], "per_op": dict(first["per_op"]),
           "violations": [v for v in first["violations"]], "levels": list(first["levels"]),
           "depth": depth, "workers_used": 1}
    rest = depth - (split_at or depth)
    if rest > 0 and first["frontier"]:
        traces = [list(t) for t in first["frontier"]]
        nw = common.workers()
        parts = [traces[i::nw * 4] for i in range(nw * 4)]
        parts = [p for p in parts if p]
        results = common.parallel_map(_worker, [(machine, p, rest) for p in parts], order_seed=common.seed())
        allseen = set(seen)
        deeper = [0] * rest
        for r in results:
            allseen |= r["seen"]
            out["transitions"] += r["transitions"]
            for k, v in r["per_op"].items():
                out["per_op"][k] = out["per_op"].get(k, 0) + v
            out["violations"].extend(r["violations"])
            for i, n in enumerate(r["levels"]):
                deeper[i] += n
        out["states"] = len(allseen)
        out["levels"].extend(deeper)
        out["levels_note"] = f"levels after {split_at} are per-worker counts (states shared between workers counted once in 'states')"
        out["workers_used"] = len(parts)
    out["violation_count"] = len(out["violations"])
    out["violations"] = sorted([v for v in out["violations"] if v], key=lambda v: (len(v["ops"]), repr(v["ops"])))
    return out
