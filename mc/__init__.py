"""Bounded exhaustive exploration (model checking) harness for python-pest.

See /verif/DESIGN.md.  Everything here is run by /venv/bin/python and imports the
library from $VERIF_REPO/src (default /repo/src), i.e. the current working tree.
"""
