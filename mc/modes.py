"""Running one grammar text in the four execution modes and observing parse() calls.

IU interpreter/unoptimised, IO interpreter/default optimizer, GU generated from IU, GO generated from IO.
"""

from __future__ import annotations

import types

MODES = ("IU", "GU", "IO", "GO")
_counter = [0]


def build_interp(text: str, optimised: bool, optimizer=None):
    from pest import Parser

    if optimizer is not None:
        return Parser.from_grammar(text, optimizer=optimizer)
    if optimised:
        return Parser.from_grammar(text)
    return Parser.from_grammar(text, optimizer=None)


class Generated:
    """A generated module loaded in memory (never written to disk)."""

    def __init__(self, source: str):
        _counter[0] += 1
        name = f"_mc_generated_{_counter[0]}"
        mod = types.ModuleType(name)
        exec(compile(source, name + ".py", "exec"), mod.__dict__)  # noqa: S102
        self.module = mod
        self.source = source
        self._parse = mod.parse

    def parse(self, rule, text, *, start_pos=0):
        return self._parse(rule, text, start_pos=start_pos)


def build(text: str, mode: str):
    """Return an object with .parse(rule, text, start_pos=...) for the mode."""
    if mode == "IU":
        return build_interp(text, False)
    if mode == "IO":
        return build_interp(text, True)
    if mode == "GU":
        return Generated(build_interp(text, False).generate())
    if mode == "GO":
        return Generated(build_interp(text, True).generate())
    raise ValueError(mode)


def tree_of(pairs, tags: bool = True):
    """Canonical tuple tree of a Pairs / list of Pair."""
    def one(p):
        kids = tuple(one(c) for c in p.children)
        if tags:
            return (p.name, p.start, p.end, p.tag, kids)
        return (p.name, p.start, p.end, kids)
    return tuple(one(p) for p in pairs)


def strip_tags(tree):
    return tuple((t[0], t[1], t[2], strip_tags(t[4])) for t in tree)


def observe(parser, rule: str, text: str, start_pos: int = 0, detail: bool = False):
    """('ok', tree-with-tags) | ('fail', furthest_pos[, expected, unexpected]) | ('exc', TypeName, msg)."""
    from pest import PestParsingError

    try:
        pairs = parser.parse(rule, text, start_pos=start_pos)
    except PestParsingError as err:
        st = err.state
        if detail:
            return ("fail", st.furthest_pos,
                    tuple(sorted((k, tuple(v)) for k, v in st.furthest_expected.items())),
                    tuple(sorted((k, tuple(v)) for k, v in st.furthest_unexpected.items())))
        return ("fail", st.furthest_pos)
    except RecursionError:
        return ("exc", "RecursionError", "")
    except Exception as exc:  # noqa: BLE001
        return ("exc", type(exc).__name__, str(exc)[:120])
    return ("ok", tree_of(pairs))


def same_outcome_as_model(obs, model_obs) -> bool:
    """Compare an implementation observation with a refpeg observation (tags ignored)."""
    if model_obs[0] == "ok":
        return obs[0] == "ok" and strip_tags(obs[1]) == model_obs[1]
    if model_obs[0] == "fail":
        return obs[0] == "fail"
    return True  # unspec
