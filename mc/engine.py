"""Parallel exhaustive driver: (grammar x start rule x input x start position x mode) executions.

The parent process stays pristine (library imported, no Parser ever created); the family of
specs lives in a module global that forked workers inherit, so a chunk is just an index range.
Inside a worker, ALL unoptimised work (IU, GU) of the chunk is done before the first optimised
parser is created, because Optimizer.optimize rewrites the shared built-in rule objects in place.
"""

from __future__ import annotations

import time

from . import common, gast, modes, refpeg


class Spec:
    __slots__ = ("rules", "starts", "inputs", "kmode", "family", "_text", "_model", "raw", "cache")

    def __init__(self, rules, starts, inputs, kmode="zero", family=""):
        self.rules = tuple(rules)
        self.starts = tuple(starts)
        self.inputs = inputs
        self.kmode = kmode          # 'zero' | 'all'
        self.family = family
        self._text = None
        self._model = None
        self.raw = False            # True when the grammar text was given directly (no gast rules)
        self.cache = {}             # per-spec scratch for checks (never keyed on id(): ids are reused)

    @property
    def text(self) -> str:
        if self._text is None:
            self._text = gast.grammar_text(self.rules)
        return self._text

    @property
    def model(self) -> refpeg.Grammar:
        if self._model is None:
            self._model = refpeg.Grammar(self.rules)
        return self._model

    def isolated(self, rule, inputs):
        """The same grammar with only `rule`, what it references, and the trivia rules."""
        by_name = {r[0]: r for r in self.rules}
        keep = {rule}
        todo = [rule]
        for t in ("WHITESPACE", "COMMENT"):
            if t in by_name:
                keep.add(t)
                todo.append(t)
        while todo:
            for r in gast.refs(by_name[todo.pop()][2]):
                if r in by_name and r not in keep:
                    keep.add(r)
                    todo.append(r)
        return Spec([r for r in self.rules if r[0] in keep], (rule,), inputs, self.kmode, self.family)

    def cases(self):
        for rule in self.starts:
            for text in self.inputs:
                if self.kmode == "all":
                    for k in range(len(text) + 1):
                        yield rule, text, k
                else:
                    yield rule, text, 0


class Check:
    """Base class for engine clients."""

    prop = "C00"
    modes = modes.MODES
    need_model = False
    max_failures_per_chunk = 400
    isolate = True
    watchdog_s = 10

    def observe(self, parser, mode, spec, rule, text, k):
        return modes.observe(parser, rule, text, k)

    def judge(self, spec, tab, model_obs, out):
        """tab[mode][(rule, text, k)] -> obs; model_obs[(rule, text, k)] -> obs or None. Append failures to out."""
        raise NotImplementedError

    def plain(self, obs):
        """The plain modes.observe() observation inside whatever observe() returned (for coverage counts)."""
        return obs

    def on_build(self, spec, mode, parser, out):
        """Hook after a parser/module for `mode` is built (C01 uses it for generate() checks)."""

    def fail(self, out, spec, kind, mode, rule, text, k, expected, got):
        out.append({"kind": kind, "mode": mode, "family": spec.family, "grammar": spec.text, "rule": rule,
                    "input": text, "start_pos": k, "expected": expected, "got": got})


_SPECS: list = []
_CHECK: Check | None = None


_TIMEOUTS = [0]


def _observe_all(check, parser, mode, spec, tab, stats):
    t = tab[mode] = {}
    timeouts: dict = {}
    for rule, text, k in spec.cases():
        if timeouts.get(rule, 0) >= 2 or _TIMEOUTS[0] >= 6:
            # this start rule hangs in this mode (or the worker has seen enough hangs to settle the verdict):
            # do not wait for the watchdog on every remaining input; the case is dropped from judgement
            t[(rule, text, k)] = ("skipped",)
            continue
        try:
            with common.Watchdog(check.watchdog_s):
                t[(rule, text, k)] = check.observe(parser, mode, spec, rule, text, k)
        except common.Watchdog.Timeout:
            t[(rule, text, k)] = ("timeout",)
            timeouts[rule] = timeouts.get(rule, 0) + 1
            _TIMEOUTS[0] += 1  # per worker process: after a few hangs the verdict is settled, stop waiting
        stats["evaluations"] += 1


def _worker(rng):
    a, b = rng
    check = _CHECK
    specs = _SPECS[a:b]
    stats = {"evaluations": 0, "specs": len(specs), "model_ok": 0, "model_fail": 0, "model_unspec": 0, "nontrivial": 0,
             "build_fail": 0, "failures": 0, "impl_ok": 0, "impl_fail": 0}
    extra: dict = {}
    out: list = []
    tabs = [dict() for _ in specs]
    want = check.modes
    # phase 1: unoptimised
    for i, spec in enumerate(specs):
        iu = None
        if "IU" in want or "GU" in want:
            try:
                iu = modes.build(spec.text, "IU")
            except Exception as exc:  # noqa: BLE001
                stats["build_fail"] += 1
                check.fail(out, spec, f"build-exc:{type(exc).__name__}", "IU", "", "", 0, "Parser", str(exc)[:200])
        if iu is not None and "IU" in want:
            check.on_build(spec, "IU", iu, out)
            _observe_all(check, iu, "IU", spec, tabs[i], stats)
        if iu is not None and "GU" in want:
            try:
                gu = modes.Generated(iu.generate())
            except Exception as exc:  # noqa: BLE001
                stats["build_fail"] += 1
                check.fail(out, spec, f"generate-exc:{type(exc).__name__}", "GU", "", "", 0, "module", str(exc)[:200])
            else:
                check.on_build(spec, "GU", gu, out)
                _observe_all(check, gu, "GU", spec, tabs[i], stats)
    # phase 2: optimised
    for i, spec in enumerate(specs):
        io = None
        if "IO" in want or "GO" in want:
            try:
                io = modes.build(spec.text, "IO")
            except Exception as exc:  # noqa: BLE001
                stats["build_fail"] += 1
                check.fail(out, spec, f"build-exc:{type(exc).__name__}", "IO", "", "", 0, "Parser", str(exc)[:200])
        if io is not None and "IO" in want:
            check.on_build(spec, "IO", io, out)
            _observe_all(check, io, "IO", spec, tabs[i], stats)
        if io is not None and "GO" in want:
            try:
                go = modes.Generated(io.generate())
            except Exception as exc:  # noqa: BLE001
                stats["build_fail"] += 1
                check.fail(out, spec, f"generate-exc:{type(exc).__name__}", "GO", "", "", 0, "module", str(exc)[:200])
            else:
                check.on_build(spec, "GO", go, out)
                _observe_all(check, go, "GO", spec, tabs[i], stats)
    # phase 3: model + judge
    for i, spec in enumerate(specs):
        skipped = {key for t in tabs[i].values() for key, obs in t.items() if obs == ("skipped",)}
        if skipped:
            # a case that timed out in some mode stays in judgement (a "skipped" entry next to it counts as a timeout too: it was
            # skipped because the verdict was settled); only cases that no mode actually ran to a timeout are dropped
            timed_out = {key for t in tabs[i].values() for key, obs in t.items() if obs == ("timeout",)}
            for t in tabs[i].values():
                for key in skipped:
                    if key in timed_out:
                        if t.get(key) == ("skipped",):
                            t[key] = ("timeout",)
                    else:
                        t.pop(key, None)
            skipped -= timed_out
        model_obs = None
        if check.need_model:
            model_obs = {}
            g = spec.model
            for rule, text, k in spec.cases():
                if (rule, text, k) in skipped:
                    continue
                st = refpeg.Stats()
                mo = refpeg.observe(g, rule, text, k, st)
                model_obs[(rule, text, k)] = mo
                if mo[0] == "ok":
                    stats["model_ok"] += 1
                elif mo[0] == "fail":
                    stats["model_fail"] += 1
                else:
                    stats["model_unspec"] += 1
                if st.backtracks or (mo[0] == "ok" and mo[1]):
                    stats["nontrivial"] += 1
        else:
            first = tabs[i].get(want[0], {})
            for key, obs in first.items():
                obs = check.plain(obs)
                if obs[0] == "ok":
                    stats["impl_ok"] += 1
                    if obs[1] and not getattr(check, "nontrivial_is_reject", False):
                        stats["nontrivial"] += 1
                else:
                    stats["impl_fail"] += 1
                    if getattr(check, "nontrivial_is_reject", False):
                        stats["nontrivial"] += 1
        before = len(out)
        check.judge(spec, tabs[i], model_obs, out)
        if len(out) > before and len(spec.starts) > 1 and check.isolate and not spec.raw:
            out[before:] = _isolate(check, spec, out[before:])
        stats["failures"] += len(out) - before
        check.collect(spec, tabs[i], model_obs, extra)
    total_failures = len(out)
    out.sort(key=lambda c: (len(c["grammar"]), len(c["input"]), c["grammar"], c["input"], c["mode"]))
    return stats, out[: check.max_failures_per_chunk], total_failures, extra


def _isolate(check, spec, fails):
    """Re-run failing cases of a batched grammar on the grammar reduced to the one start rule."""
    by_rule: dict = {}
    for c in fails:
        by_rule.setdefault(c["rule"], []).append(c)
    res = []
    for rule, cs in by_rule.items():
        if not rule or len(res) > 60:
            res.extend(cs)
            continue
        iso = spec.isolated(rule, sorted({c["input"] for c in cs}))
        tab: dict = {}
        dummy = {"evaluations": 0}
        sub: list = []
        try:
            iu = modes.build(iso.text, "IU") if ("IU" in check.modes or "GU" in check.modes) else None
            if "IU" in check.modes:
                _observe_all(check, iu, "IU", iso, tab, dummy)
            if "GU" in check.modes:
                _observe_all(check, modes.Generated(iu.generate()), "GU", iso, tab, dummy)
            io = modes.build(iso.text, "IO") if ("IO" in check.modes or "GO" in check.modes) else None
            if "IO" in check.modes:
                _observe_all(check, io, "IO", iso, tab, dummy)
            if "GO" in check.modes:
                _observe_all(check, modes.Generated(io.generate()), "GO", iso, tab, dummy)
            model_obs = None
            if check.need_model:
                model_obs = {key: refpeg.observe(iso.model, *key) for key in iso.cases()}
            check.judge(iso, tab, model_obs, sub)
        except Exception:  # noqa: BLE001
            sub = []
        got = {(c["input"], c["start_pos"], c["mode"]) for c in sub}
        res.extend(sub)
        for c in cs:
            if (c["input"], c["start_pos"], c["mode"]) not in got:
                c["batched_only"] = True  # fails only in the presence of the other rules of the batch
                res.append(c)
    return res


def _default_collect(self, spec, tab, model_obs, extra):
    pass


Check.collect = _default_collect


def run(check: Check, specs: list, chunk: int | None = None):
    """Evaluate all specs; returns (stats, failures, total_failures, extras list)."""
    global _SPECS, _CHECK
    _SPECS, _CHECK = specs, check
    n = len(specs)
    if chunk is None:
        # enough chunks to balance 16 workers, few enough that forking stays cheap
        chunk = max(1, min(150, -(-n // (common.workers() * 6))))
    ranges = [(a, min(n, a + chunk)) for a in range(0, n, chunk)]
    t0 = time.time()
    results = common.parallel_map(_worker, ranges, fresh=True, order_seed=common.seed())
    agg: dict = {}
    failures = []
    total = 0
    extras = []
    for stats, out, tot, extra in results:
        for k, v in stats.items():
            agg[k] = agg.get(k, 0) + v
        failures.extend(out)
        total += tot
        extras.append(extra)
    agg["wall_engine_s"] = round(time.time() - t0, 2)
    agg["chunks"] = len(ranges)
    failures.sort(key=lambda c: (len(c["grammar"]), len(c["input"]), c["grammar"], c["input"], c["mode"], c["kind"]))
    _SPECS, _CHECK = [], None
    return agg, failures, total, extras


def replay_case(case: dict, need_model: bool = True):
    """Re-run one recorded grammar case in its mode; returns (impl obs, model obs or None)."""
    p = modes.build(case["grammar"], case["mode"].split("/")[0] if "/" in case["mode"] else case["mode"])
    obs = modes.observe(p, case["rule"], case["input"], case.get("start_pos", 0))
    mo = None
    if need_model:
        from . import metaref

        d = metaref.oracle().denote(case["grammar"])
        if d is not None:
            mo = refpeg.observe(refpeg.Grammar([(n, m, b) for n, m, b, _ in d[0]]), case["rule"], case["input"], case.get("start_pos", 0))
    return obs, mo
