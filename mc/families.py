"""Shared building blocks of the grammar/input families (DESIGN.md section 3)."""

from __future__ import annotations

from . import gast
from .engine import Spec

S = lambda s: ("str", s)  # noqa: E731
R = lambda n: ("ref", n)  # noqa: E731

# helper rules: n non-silent, s silent (produces a pair and can then still fail)
HELPERS = (("n", "", S("a")), ("s", "_", ("seq", (R("n"), S("b")))))

T_CORE = (S("a"), S("b"), S("ab"), ("ci", "a"), ("range", "a", "b"), R("ANY"), R("EOI"), R("n"), R("s"), R("SOI"), R("ASCII_HEX_DIGIT"), S(""))
SIGMA_CORE = "abA"

_inputs_cache: dict = {}


def inputs(alphabet: str, maxlen: int) -> list[str]:
    key = (alphabet, maxlen)
    if key not in _inputs_cache:
        _inputs_cache[key] = gast.strings_upto(alphabet, maxlen)
    return _inputs_cache[key]


def core_exprs(n: int, terminals=T_CORE, unary=gast.U_CORE, helpers=HELPERS, exact: bool = False, ternary: bool = False):
    env = gast.Env(helpers)
    if exact:
        memo: dict = {}
        return gast.exprs_of_size(n, tuple(terminals), tuple(unary), ("seq", "alt"), env, ternary, memo)
    return gast.exprs_upto(n, tuple(terminals), tuple(unary), ("seq", "alt"), env, ternary)


def wf(rules) -> bool:
    return gast.well_formed(rules)


TRIVIA = {
    "none": (),
    "ws": (("WHITESPACE", "_", S(" ")),),
    "ws_loud": (("WHITESPACE", "", S(" ")),),
    "cm2": (("COMMENT", "_", ("seq", (S("#"), S("!")))),),
    "both": (("WHITESPACE", "_", S(" ")), ("COMMENT", "_", ("seq", (S("#"), S("!"))))),
    "ws_choice": (("WHITESPACE", "_", ("alt", (S(" "), S("\t")))),),
    "cm1": (("COMMENT", "_", S("#")),),
    "both_loud": (("WHITESPACE", "", S(" ")), ("COMMENT", "", S("#"))),
    # alternatives that are prefixes of one another, over letters the start rules use too (the optimizer fuses
    # a silent choice-bodied WHITESPACE into one regex: ordered choice must survive that)
    "ws_overlap": (("WHITESPACE", "_", ("alt", (S("b"), S("ba")))),),
    # a trivia rule whose body produces a pair and can then still fail (sp matches, "." does not)
    "ws_pairs": (("sp", "$", S(" ")), ("WHITESPACE", "_", ("seq", (R("sp"), S(".")))),),
    # a COMMENT whose body holds a predicate that the skip pass cannot turn into a substring search (EOI in the choice)
    # a COMMENT that starts with what WHITESPACE matches: pest skips WHITESPACE* ~ (COMMENT ~ WHITESPACE*)*, so COMMENT is only tried
    # once WHITESPACE no longer matches
    "both_overlap": (("WHITESPACE", "_", S(" ")), ("COMMENT", "_", ("seq", (S(" "), S("#"))))),
    # a COMMENT whose body calls a non-atomic rule: implicit rules are skipped inside an implicit rule (re-entrance)
    "cm_nonatomic": (("cin", "!", ("seq", (S("a"), ("opt", S("a"))))), ("COMMENT", "_", ("seq", (S("#"), R("cin"), S("!"))))),
    # an implicit rule that changes the stack before it can fail: a failed attempt must leave the stack alone
    "cm_stack": (("WHITESPACE", "_", S(" ")), ("COMMENT", "_", ("seq", (("push", S("#")), S("!"), ("drop",))))),
    # implicit whitespace that is a compound-atomic / a non-atomic rule (its own pair is visible even inside an atomic caller)
    "ws_compound": (("WHITESPACE", "$", S(" ")),),
    "ws_nonatomic": (("WHITESPACE", "!", S(" ")),),
    # an implicit rule that READS the stack: whether it matches at a position depends on what was pushed since it was last tried there
    "ws_pop": (("WHITESPACE", "_", ("pop",)),),
    # WHITESPACE whose body is a bare sequence (it can fail after having consumed) next to a COMMENT: the COMMENT attempt starts where the
    # WHITESPACE attempt started, not where it gave up
    "both_seq": (("WHITESPACE", "_", ("seq", (S(" "), S(" ")))), ("COMMENT", "_", ("seq", (S("#"), S("!"))))),
    "cm_pred": (("COMMENT", "_", ("seq", (S("#"), ("star", ("grp", ("seq", (("not", ("grp", ("alt", (S("!"), R("EOI"))))), R("ANY")))))))),),
}
TRIVIA_SIGMA = {
    "none": "", "ws": " ", "ws_loud": " ", "cm2": "#!", "both": " #!", "ws_choice": " \t", "cm1": "#", "both_loud": " #", "ws_overlap": "", "cm_pred": "#!", "ws_pairs": " .", "both_overlap": " #", "cm_nonatomic": "#!", "cm_stack": " #!", "ws_compound": " ", "ws_nonatomic": " ", "ws_pop": "", "both_seq": " #!",
}


# ----------------------------------------------------------------------------- the "C01 families"
# (shared by C01, C06, C07, C13, C16: every expression kind in every nesting context)

PUSH_AB = ("push", ("alt", (S("a"), S("b"))))
T_STACK = (PUSH_AB, ("pop",), ("peek",), ("drop",), ("peekall",), ("popall",), ("pushlit", "b"), ("slice", 0, None), ("slice", -1, None))
T_TAGGED = (("tag", "tt", R("n")), ("tag", "tt", ("grp", ("seq", (R("n"), S("b"))))), ("tag", "tt", R("s")))
T_FULL = T_CORE + (("ci", "ab"), ("ci", "")) + T_STACK + T_TAGGED
MODS = ("", "_", "@", "$", "!")
NEVER = S("!")          # '!' is in no input alphabet: HOLE ~ "!" commits HOLE and then fails
REST = ("star", R("ANY"))


def contexts():
    """name -> (function hole -> (extra rules, start rule tuple)).  Each start rule is (modifier, body)."""
    H = "HOLE"
    ab = lambda h: ("grp", ("seq", (h, NEVER)))  # noqa: E731  inner commits, outer fails

    def simple(f):
        g = lambda h, i: ((), ("", f(h)))  # noqa: E731
        g.expr = f
        return g

    ctx = {
        "plain": simple(lambda h: h),
        "seq_left": simple(lambda h: ("seq", (h, S("b")))),
        "seq_right": simple(lambda h: ("seq", (S("a"), h))),
        "alt_abandon": simple(lambda h: ("alt", (("seq", (h, NEVER)), REST))),
        "alt_second": simple(lambda h: ("alt", (S("b"), h))),
        "opt_abandon": simple(lambda h: ("seq", (("opt", ab(h)), REST))),
        "star_abandon": simple(lambda h: ("seq", (("star", ab(h)), REST))),
        "plus_abandon": simple(lambda h: ("alt", (("plus", ab(h)), REST))),
        "exact_abandon": simple(lambda h: ("alt", (("exact", ab(h), 2), REST))),
        "min_abandon": simple(lambda h: ("alt", (("min", ab(h), 1), REST))),
        "max_abandon": simple(lambda h: ("seq", (("max", ab(h), 2), REST))),
        "minmax_abandon": simple(lambda h: ("alt", (("minmax", ab(h), 1, 2), REST))),
        "and": simple(lambda h: ("seq", (("and", h), REST))),
        "not": simple(lambda h: ("seq", (("not", h), REST))),
        "and_abandon": simple(lambda h: ("alt", (("and", ab(h)), REST))),
        "not_not": simple(lambda h: ("seq", (("not", ("not", h)), REST))),
        "push": simple(lambda h: ("seq", (("push", h), REST))),
        "push_peek": simple(lambda h: ("seq", (("push", h), ("peekall",), REST))),
        "prepushed": simple(lambda h: ("seq", (("pushlit", "a"), h, REST))),
        "prepushed_opt_abandon": simple(lambda h: ("seq", (("pushlit", "a"), ("opt", ab(h)), ("peekall",), REST))),
        # two entries pushed WITHOUT consuming input: a stack terminal in the hole starts matching at the very start of the parse
        "prepushed_two_literals": simple(lambda h: ("seq", (("pushlit", "a"), ("pushlit", "b"), h, REST))),
        # a postfix operator DIRECTLY over PUSH( ) whose argument commits and then fails (no group in between: implementations
        # special-case operands that "buffer their own pairs")
        "opt_push_abandon": simple(lambda h: ("seq", (("opt", ("push", ("seq", (h, NEVER)))), REST))),
        "max_push_abandon": simple(lambda h: ("seq", (("max", ("push", ("seq", (h, NEVER))), 2), REST))),
        "star_push_abandon": simple(lambda h: ("seq", (("star", ("push", ("seq", (h, NEVER)))), REST))),
        "opt_push_then_fail": simple(lambda h: ("alt", (("seq", (("opt", ("push", h)), NEVER)), REST))),
        # plain (not abandoned) optional / first alternative: what is inside may itself fail late
        "opt": simple(lambda h: ("seq", (("opt", h), REST))),
        "alt_first": simple(lambda h: ("alt", (h, S("b")))),
        "max": simple(lambda h: ("seq", (("max", h, 2), REST))),
    }
    # a predicate over a rule that re-enables pairs for itself ($ and ! rules switch pair hiding off): its pairs must still be discarded
    for m, mname in (("$", "compound"), ("!", "nonatomic")):
        def pr(h, i, m=m):
            return ((f"h{i}", m, h),), ("", ("seq", (("and", R(f"h{i}")), ("not", ("not", R(f"h{i}"))), R(f"h{i}"), REST)))
        ctx[f"predicates_over_{mname}_rule"] = pr
    # a postfix operator directly over a rule reference whose body commits and then fails
    for m, mname in (("", "normal"), ("_", "silent")):
        def q(h, i, m=m):
            return ((f"h{i}", m, ("seq", (h, NEVER))),), ("", ("seq", (("opt", R(f"h{i}")), ("max", R(f"h{i}"), 2), REST)))
        ctx[f"opt_rule_abandon_{mname}"] = q
    # the hole as the WHOLE body of a rule that is called with a non-empty stack (generated templates for stack
    # terminals are only exercised bare - outside any sequence/choice that presets the result - in this shape)
    for m, mname in (("", "normal"), ("_", "silent")):
        for pre, pname in (((("pushlit", "a"),), "one"), ((PUSH_AB, PUSH_AB), "two")):
            def g(h, i, m=m, pre=pre):
                return ((f"h{i}", m, h),), ("", ("seq", tuple(pre) + (R(f"h{i}"), REST)))
            ctx[f"prepushed_{pname}_rule_{mname}"] = g
    for m, mname in (("_", "silent"), ("@", "atomic"), ("$", "compound"), ("!", "nonatomic")):
        for caller, cname in (("", "normal"), ("@", "atomic"), ("$", "compound")):
            def f(h, i, m=m, caller=caller):
                return ((f"h{i}", m, h),), (caller, ("seq", (R(f"h{i}"), REST)))
            ctx[f"rule_{mname}_in_{cname}"] = f
    return ctx


def batch_specs(starts, base_rules, ins, kmode, family, batch=40):
    """starts: list of (extra_rules, (mod, body)).  Start rules are named r<i>."""
    out = []
    for i in range(0, len(starts), batch):
        rules = list(base_rules)
        names = []
        for j, (extra, (mod, body)) in enumerate(starts[i:i + batch]):
            rules.extend(extra)
            name = f"r{i + j}"
            rules.append((name, mod, body))
            names.append(name)
        out.append(Spec(rules, names, ins, kmode, family))
    return out


C01_BOUNDS = {
    # top: list of (n, modifiers, trivia configs); ctx: (hole size, trivia configs); L: max number of inputs
    "quick": {"top": [(2, MODS, ("none", "ws", "both")), (2, ("", "@"), ("ws_loud", "cm2", "ws_choice", "ws_pairs")), (3, ("", "@"), ("none", "ws"))],
              "ctx": [(2, ("none", "ws"))], "max_inputs": 90},
    "thorough": {"top": [(3, MODS, ("none", "ws", "ws_loud", "cm2", "both", "ws_choice", "cm1", "cm_pred", "ws_pairs")), (4, ("",), ("none", "ws"))],
                 "ctx": [(3, ("none", "ws")), (2, ("cm2", "both", "ws_loud", "ws_choice"))], "max_inputs": 160},
}


CTX2_QUICK = ["seq_left", "seq_right", "alt_abandon", "alt_second", "opt_abandon", "star_abandon", "and", "not", "not_not", "push", "prepushed", "max_abandon", "opt_push_abandon"]
CTX2_LEAN = ["seq_right", "alt_abandon", "opt_abandon", "star_abandon", "not", "push", "prepushed"]


def ctx2_specs(kmode, tier, terminals, trivs, names=None, sigma_core=SIGMA_CORE, extra_sigma="", max_inputs=45):
    """Contexts composed with contexts (expressions of 6-12 nodes that the size-bounded enumeration cannot reach): outer(inner(terminal))."""
    ctxs = contexts()
    names = names or [c for c in ctxs if hasattr(ctxs[c], "expr")]
    out = []
    for tv in trivs:
        sigma = sigma_core + TRIVIA_SIGMA[tv] + extra_sigma
        ins = inputs(sigma, length_for(sigma, max_inputs))
        rules_env = TRIVIA[tv] + HELPERS
        for outer in names:
            starts = []
            for inner in names:
                for t in terminals:
                    body = ctxs[outer].expr(("grp", ctxs[inner].expr(t)))
                    if gast.well_formed(rules_env + (("x", "", body),)):
                        starts.append(((), ("", body)))
            out.extend(batch_specs(starts, rules_env, ins, kmode, f"ctx2({outer},{tv})"))
    return out


CTX3_CORE = ["seq_left", "seq_right", "alt_abandon", "alt_second", "alt_first", "opt", "opt_abandon", "star_abandon", "and", "not", "max"]


def ctx3_specs(kmode, tier, terminals, trivs=("none",), sigma="abA", L=3):
    """Three contexts deep: c1(c2(c3(terminal))) over the core contexts - expressions of 8 to 15 nodes."""
    ctxs = contexts()
    names = CTX3_CORE
    out = []
    for tv in trivs:
        ins = inputs(sigma + TRIVIA_SIGMA[tv], L)
        rules_env = TRIVIA[tv] + HELPERS
        for c1 in names:
            starts = []
            for c2 in names:
                for c3 in names:
                    for t in terminals:
                        body = ctxs[c1].expr(("grp", ctxs[c2].expr(("grp", ctxs[c3].expr(t)))))
                        if gast.well_formed(rules_env + (("x", "", body),)):
                            starts.append(((), ("", body)))
            out.extend(batch_specs(starts, rules_env, ins, kmode, f"ctx3({c1},{tv})"))
    return out


def c01_bounds(tier: str, lean: bool = False):
    b = C01_BOUNDS[tier]
    if lean and tier == "quick":
        b = dict(b, top=[(n, (("",) if n >= 3 else m), (("none",) if n >= 3 else t)) for n, m, t in b["top"]], ctx=[(h, ("none",)) for h, t in b["ctx"]], ctx_stack_under=["ws"])
    return b


def length_for(alphabet: str, max_inputs: int) -> int:
    L, total = 0, 1
    while total + len(alphabet) ** (L + 1) <= max_inputs:
        L += 1
        total += len(alphabet) ** L
    return L


def c01_specs(tier: str, kmode: str = "zero", terminals=T_FULL, soi_free: bool = False, extra_sigma: str = "", max_inputs: int | None = None, extra_trivia=(), sigma_core: str | None = None,
              lean: bool = False, ctx2_trivia=()):
    """lean (quick tier of the checks that multiply the work): the n<=3 row with normal rules and no trivia only, contexts without trivia
    only - except the stack contexts, which also run under WHITESPACE."""
    b = c01_bounds(tier, lean)
    if extra_trivia:
        n0, mods0, trivs0 = b["top"][0]
        b = dict(b, top=[(n0, mods0, tuple(trivs0) + tuple(t for t in extra_trivia if t not in trivs0))] + list(b["top"][1:]))
    mi = max_inputs or b["max_inputs"]
    env = gast.Env(HELPERS)
    out = []
    memo_bodies: dict = {}

    def bodies(n):
        if n not in memo_bodies:
            memo_bodies[n] = gast.exprs_upto(n, tuple(terminals), gast.U_CORE, ("seq", "alt"), env)
        return memo_bodies[n]

    for n, mods, trivs in b["top"]:
        for tv in trivs:
            sigma = (sigma_core or SIGMA_CORE) + TRIVIA_SIGMA[tv] + extra_sigma
            ins = inputs(sigma, length_for(sigma, mi))
            if tv in extra_trivia:
                # configurations added for one property: a small alphabet, so that inputs reach length 3
                sigma = "ab" + TRIVIA_SIGMA[tv]
                ins = inputs(sigma, 3)
            starts = [((), (m, body)) for body in bodies(n) for m in mods]
            out.extend(batch_specs(starts, TRIVIA[tv] + HELPERS, ins, kmode, f"top(n<={n},{tv})"))
    ctxs = contexts()
    for hole_n, trivs in b["ctx"]:
        for tv in trivs:
            sigma = (sigma_core or SIGMA_CORE) + TRIVIA_SIGMA[tv] + extra_sigma
            ins = inputs(sigma, length_for(sigma, mi))
            for cname, f in ctxs.items():
                starts = []
                for i, h in enumerate(bodies(hole_n)):
                    extra, start = f(h, i)
                    rules = TRIVIA[tv] + HELPERS + tuple(extra) + (("x", start[0], start[1]),)
                    if not gast.well_formed(rules):
                        continue  # e.g. a repetition context around a nullable hole
                    starts.append((extra, start))
                out.extend(batch_specs(starts, TRIVIA[tv] + HELPERS, ins, kmode, f"ctx({cname},hole<={hole_n},{tv})"))
    if lean and tier == "quick":
        # lean drops the contexts under trivia - except the stack contexts: a trivia attempt is a nested checkpoint that pops nothing,
        # which is exactly what snapshot bookkeeping gets wrong
        tv = "ws"
        sigma = (sigma_core or SIGMA_CORE) + TRIVIA_SIGMA[tv] + extra_sigma
        ins = inputs(sigma, length_for(sigma, mi))
        for cname, f in ctxs.items():
            if "push" not in cname:
                continue
            starts = []
            for i, h in enumerate(bodies(2)):
                extra, start = f(h, i)
                rules = TRIVIA[tv] + HELPERS + tuple(extra) + (("x", start[0], start[1]),)
                if gast.well_formed(rules):
                    starts.append((extra, start))
            out.extend(batch_specs(starts, TRIVIA[tv] + HELPERS, ins, kmode, f"ctx({cname},hole<=2,{tv})"))
    names = CTX2_LEAN if (lean and tier == "quick") else (CTX2_QUICK if tier == "quick" else None)
    out.extend(ctx2_specs(kmode, tier, terminals, (("none",) if tier == "quick" else ("none", "ws")) + tuple(ctx2_trivia), names, (sigma_core or SIGMA_CORE), extra_sigma, min(mi, 45)))
    return out + extra_specs(kmode, tier)


def count_forms(top: int, zero: bool = True):
    """Every bound spelling {m} {m,} {,n} {m,n} with counts up to top; with zero=True also the zero counts python-pest accepts."""
    lo = 0 if zero else 1
    out = [("exact", m) for m in range(lo, top + 1)] + [("min", m) for m in range(0, top + 1)] + [("max", n) for n in range(lo, top + 1)]
    out += [("minmax", m, n) for n in range(lo, top + 1) for m in range(0, n + 1)]
    return out


def extra_specs(kmode: str = "zero", tier: str = "quick", short: bool = False):
    """Constructs the size-bounded enumeration cannot reach (added after seeded changes showed the gaps):
    (1) counts: every repetition bound up to 3, zero counts included, over three operands in four contexts, normal and atomic, with and without whitespace;
    (2) newline: every expression of <= 2 nodes over {NEWLINE, "a", "\n", ANY} on inputs over {a, \r, \n}, also with NEWLINE as implicit whitespace."""
    out = []
    cut = 1 if ((kmode == "all" or short) and tier == "quick") else 0   # every start position (or 16 optimizer configurations) multiplies the work: one character shorter
    operands = (S("a"), R("n"), ("grp", ("alt", (S("ab"), S("a")))))
    for tv in ("none", "ws"):
        starts = []
        for e in operands:
            for form in count_forms(3 if tier == "quick" else 4):
                rep = (form[0], e) + tuple(form[1:])
                for body in (rep, ("seq", (rep, S("a"))), ("seq", (rep, R("EOI"))), ("alt", (("seq", (rep, S("b"))), ("star", R("ANY")))), ("alt", (rep, e, S("b")))):
                    for mod in ("", "@"):
                        starts.append(((), (mod, body)))
        sigma = SIGMA_CORE + TRIVIA_SIGMA[tv]
        out.extend(batch_specs(starts, TRIVIA[tv] + HELPERS, inputs(sigma, (4 if tv == "none" else 3) - cut), kmode, f"counts({tv})"))
    # (4) repetitions whose operand matches WITHOUT consuming input and still terminate (DROP on a finite stack), under implicit whitespace:
    #     an iteration that ends where it began - at offset 0 in particular - followed by trivia that has to be given back
    pre = (("pushlit", "a"), ("pushlit", "b"))
    zw = (("drop",), ("grp", ("seq", (("and", ("drop",)), ("pop",)))), ("grp", ("seq", (("drop",), ("opt", S("a"))))))
    zstarts = []
    for e in zw:
        for u in (("star",), ("plus",), ("min", 1), ("opt",), ("max", 2)):
            rep = (u[0], e) + tuple(u[1:])
            for tail in ((), (S("b"),), (("peekall",),), (("star", S("a")),)):
                for m in ("", "!", "@"):
                    zstarts.append(((), (m, ("seq", pre + (rep,) + tail))))
                    zstarts.append(((), (m, ("seq", (("pushlit", "b"), rep) + tail))))
    # ... and a predicate on the trivia character itself: (&" ")* terminates because the whitespace it looks at is skipped after the iteration;
    # as the FIRST thing in a rule its first iteration ends at the offset the parse started from
    sp = ("and", S(" "))
    for u in (("star",), ("plus",), ("min", 1)):
        rep = (u[0], sp) + tuple(u[1:])
        for m in ("", "!"):
            for body in (rep, ("seq", (rep, S("b"))), ("seq", (rep, ("star", S("b")))), ("seq", (S("a"), rep)), ("seq", (S("a"), rep, S("b"))), ("alt", (("seq", (rep, S("!"))), rep))):
                zstarts.append(((), (m, body)))
    out.extend(batch_specs(zstarts, TRIVIA["ws"] + HELPERS, inputs("ab ", 3 if kmode == "all" else 4), kmode, "zero-width-repetition(ws)"))
    # (5) postfix operators chained on a counted repetition without parentheses: e{2}+ is (e{2})+, never e{2,}
    chains = []
    for e in (S("a"), R("n")):
        for f1 in (("exact", 2), ("minmax", 1, 2), ("min", 2), ("max", 2), ("plus",), ("opt",)):
            for f2 in (("plus",), ("star",), ("opt",), ("exact", 2), ("minmax", 1, 2), ("max", 2), ("min", 1)):
                inner = (f1[0], e) + tuple(f1[1:])
                if f2[0] in ("star", "plus", "exact", "min", "minmax", "max") and f1[0] in ("opt", "max"):
                    continue  # a repetition over something that matches empty
                outer = (f2[0], ("bare", inner)) + tuple(f2[1:])      # printed without parentheses: e{2}+
                for body in (outer, ("seq", (outer, R("EOI"))), ("seq", (outer, S("a")))):
                    chains.append(((), ("", body)))
    out.extend(batch_specs(chains, HELPERS, inputs("ab", 7 - cut), kmode, "postfix-chains"))
    # (3) empty (reversed) ranges, alone and in choices made only of them, under every operator (they never match: a repetition over them ends at once)
    er = (("range", "b", "a"), ("grp", ("alt", (("range", "b", "a"), ("range", "z", "y")))), ("grp", ("alt", (("range", "b", "a"), ("range", "z", "y"), ("range", "9", "0")))), S("a"))
    ebodies = gast.exprs_upto(3, er, gast.U_CORE, ("seq", "alt"), gast.Env(HELPERS))
    out.extend(batch_specs([((), (m, b)) for b in ebodies for m in ("", "@")], HELPERS, inputs("ab", 3 - cut), kmode, "empty-ranges"))
    env = gast.Env(HELPERS)
    terms = (R("NEWLINE"), S("a"), S("\n"), R("ANY"))
    bodies = gast.exprs_upto(2 if tier == "quick" else 3, terms, gast.U_CORE, ("seq", "alt"), env)
    nl_ws = (("WHITESPACE", "_", ("alt", (R("NEWLINE"), S(" ")))),)
    for name, triv, sigma, L in (("none", (), "a\r\n", 4), ("nl_ws", nl_ws, "a\r\n ", 3)):
        starts = [((), (m, b)) for b in bodies for m in ("", "@")]
        out.extend(batch_specs(starts, triv + HELPERS, inputs(sigma, L - cut), kmode, f"newline({name})"))
    return out


def NOT_ANY(stop):
    return ("star", ("grp", ("seq", (("not", stop), R("ANY")))))


SKIP_SHAPES = (
    ("b", NOT_ANY(S("b"))),
    ("b|ab", NOT_ANY(("grp", ("alt", (S("b"), S("ab")))))),
    ("bb", NOT_ANY(S("bb"))),                    # a stop string that overlaps itself
    ("^b", NOT_ANY(("ci", "b"))),                 # case-insensitive stop
    ("^ab", NOT_ANY(("ci", "ab"))),               # case-insensitive stop of two letters (mixed-case spellings)
    ("rule", NOT_ANY(R("n"))),                    # the stop is a rule (n = { "a" })
    ("seq", NOT_ANY(("grp", ("seq", (S("a"), S("b")))))),   # a sequence of literals: implicit rules may match between its parts
    ("rule!seq", NOT_ANY(R("e_non"))),            # ... inside a rule that re-enables implicit rules (e_non = !{ "a" ~ "b" })
    ("rule@seq", NOT_ANY(R("e_at"))),             # ... inside an atomic rule (e_at = @{ "a" ~ "b" })
)
SKIP_HELPERS = (("e_non", "!", ("seq", (S("a"), S("b")))), ("e_at", "@", ("seq", (S("a"), S("b")))))


def skip_specs(kmode: str = "zero", tier: str = "quick", trivs=None, mods=None, full: bool = False):
    """The (!stop ~ ANY)* idiom, which the optimizer turns into a substring search, in the places where such a search can go wrong:
    evaluated at several positions of one input (repetition, two calls of one rule), re-evaluated after backtracking, under every
    rule modifier (implicit trivia is live inside normal and ! rules), with stops that are case-insensitive / overlap / are rules."""
    out = []
    T = S("b")
    if full or tier == "thorough":
        trivs, mods = trivs or ("none", "ws", "cm1"), mods or ("", "_", "@", "$", "!")
    else:
        trivs, mods = trivs or ("none", "ws"), mods or ("", "@", "!")
    for tv in trivs:
        starts = []
        for label, X in SKIP_SHAPES:
            w = ("w_" + str(SKIP_SHAPES.index((label, X))), "", X)       # a rule holding the shape, so that one expression object is called twice
            W = R(w[0])
            templates = (
                X, ("seq", (X, T)), ("star", ("grp", ("seq", (X, T)))), ("seq", (X, T, X)), ("seq", (T, X)),
                ("alt", (("seq", (X, T, X, S("!"))), ("seq", (X, T, X)))),               # the same positions again after backtracking
                ("seq", (W, T, W)), ("star", ("grp", ("seq", (W, T)))), ("alt", (("seq", (W, S("!"))), ("seq", (S("a"), W)))),
                ("seq", (("and", ("seq", (X, T))), R("ANY"), X)), ("seq", (("opt", ("grp", ("seq", (X, T, S("!"))))), X)),
            )
            for body in templates:
                for m in mods:
                    starts.append(((w,), (m, body)))
        sigma = "abB" + TRIVIA_SIGMA[tv]
        L = 4 if (tier == "thorough" or (kmode != "all" and tv == "none")) else 3
        specs = []
        for i in range(0, len(starts), 40):
            rules = list(TRIVIA[tv] + HELPERS + SKIP_HELPERS)
            names = []
            seen_extra = set()
            for j, (extra, (mod, body)) in enumerate(starts[i:i + 40]):
                for r in extra:
                    if r[0] not in seen_extra:
                        seen_extra.add(r[0])
                        rules.append(r)
                name = f"r{i + j}"
                rules.append((name, mod, body))
                names.append(name)
            specs.append(Spec(rules, names, inputs(sigma, L), kmode, f"skip-shapes({tv})"))
        out.extend(specs)
    return out


def explicit_trivia_specs(kmode: str = "zero", tier: str = "quick"):
    """WHITESPACE / COMMENT named explicitly in rule bodies while they are also implicit and NOT silent: their pairs are subject to the
    caller's atomicity like any other rule's, their bodies are atomic by name."""
    out = []
    for tv, sigma, L in (("ws_loud", "a ", 4), ("both_loud", "a #", 3 if (tier == "quick" or kmode == "all") else 4), ("ws_compound", "a ", 4), ("ws_nonatomic", "a ", 4)):
        names = tuple(R(r[0]) for r in TRIVIA[tv])
        env = gast.Env(HELPERS + TRIVIA[tv])
        bodies = gast.exprs_upto(3, (S("a"),) + names, U_CORE_SMALL, ("seq", "alt"), env)
        starts = [((), (m, b)) for b in bodies for m in ("", "@", "$", "!")]
        out.extend(batch_specs(starts, TRIVIA[tv] + HELPERS, inputs(sigma, L), kmode, f"explicit-loud-trivia({tv})"))
    return out


META_LITS = (".", "a.", ".a", "+", "a+", "[", "[a]", "]", "\\", "a\\", "a|b", "|", "(", "(a)", ")", "^", "^a", "$", "a$", "{", "a{1}", "?", "a?", "*", "a*", "-", "a-c", "\\d", "#", " ", "&", "~", "\U0001F600", "e\u0301", "\u00e9")


BUILTIN_PROBE_CHARS = ("a", "A", "1", " ", "!", "-", "_", "\n", "\u00e9", "\u03b1", "\u4e2d", "\u0301", "\U0001F600", "\u01c5", "\u02b0", "\u0660", "\u2028", "\u00a0", "\u0627", "\u05d0", "\u3042", "\uac00", "\u0e01", "\x00", "\ud800")


def builtin_specs(kmode: str = "zero", tier: str = "quick"):
    """EVERY built-in rule of the library (ASCII_*, ANY/SOI/EOI/NEWLINE, ~260 Unicode categories, binary properties and scripts) under a negative
    predicate, a positive predicate, a repetition and in a choice with a literal, on one- and two-character inputs from 25 characters of many
    scripts and categories.  Not judged by a model: used for mode agreement, totality and failure reports (rule names!)."""
    from pest import Parser

    names = sorted(n for n in Parser.BUILTIN if n not in ("PEEK", "POP", "DROP", "PEEK_ALL", "POP_ALL", "PUSH"))
    if tier == "quick":
        keep = {"ANY", "SOI", "EOI", "NEWLINE", "LETTER", "UPPERCASE_LETTER", "TITLECASE_LETTER", "MARK", "DECIMAL_NUMBER", "ALPHABETIC", "WHITE_SPACE", "EMOJI", "GREEK", "HAN", "LATIN", "ARABIC", "HIRAGANA", "COMMON", "INHERITED"}
        names = [n for n in names if n.startswith("ASCII") or n in keep or hash_stable(n) % 4 == 0]
    starts = []
    for n in names:
        B = R(n)
        starts.append(((), ("", ("seq", (("not", B), R("ANY"))))))
        starts.append(((), ("", ("seq", (("and", B), S("!"))))))
        starts.append(((), ("@", ("seq", (("plus", B), S("!"))))) if n not in ("SOI", "EOI") else ((), ("", ("seq", (B, S("!"))))))
        starts.append(((), ("", ("seq", (("alt", (B, S("-"))), ("alt", (S("!"), B)))))))
    chars = BUILTIN_PROBE_CHARS
    ins = ("",) + chars + tuple(c + "!" for c in chars) + tuple(c + c for c in chars[:12]) + tuple("-" + c for c in chars[:12])
    return batch_specs(starts, (), ins, kmode, "every-built-in")


def hash_stable(s: str) -> int:
    return sum((i + 1) * ord(c) for i, c in enumerate(s))


BUILTIN_RULE_TEXT = ("; plus every-built-in: each built-in rule (quick: all ASCII_* and special ones, 19 named Unicode rules and a fixed quarter of the remaining ~240; thorough: all) as !B ~ ANY, &B ~ \"!\", @{ B+ ~ \"!\" } and (B | \"-\") ~ (\"!\" | B) "
                     "on one- and two-character inputs from 25 characters of many scripts and categories (incl. NUL, a lone surrogate, a non-BMP character, a combining mark)")


def recursive_specs(kmode: str = "zero", tier: str = "quick", stack: bool = False, trivs=("none",)):
    """Recursive grammars (nothing else in these families is recursive): a rule that refers back to itself inside a repetition, an optional
    and a choice, with something that matters (a pair, a stack operation) placed BEFORE and AFTER the recursive part, called from a repetition,
    an optional and directly.  Any per-rule analysis that is started from outside the cycle, or cached half way round it, shows here."""
    a = R("a")
    recs = {
        "list": ("seq", (("star", ("grp", ("seq", (a, S(","))))), ("opt", a))),
        "opt": ("opt", a),
        "star": ("star", a),
        "alt": ("grp", ("alt", (("seq", (a, S(","))), a, S("")))),
    }
    ops = (("pushlit", "x"), ("push", ("opt", S("x")))) if stack else (R("n"), ("opt", R("n")))
    tops = {
        "star": lambda: ("star", a), "one": lambda: a, "opt": lambda: ("opt", a), "two": lambda: ("seq", (a, ("opt", a))),
        "abandon": lambda: ("alt", (("seq", (a, S("!"))), ("star", a))),
    }
    tail = (("popall",), R("EOI")) if stack else (("star", S("x")), R("EOI"))
    out = []
    for tv in trivs:
        k = 0
        for rname, rec in recs.items():
            for op in ops:
                for place in ("before", "after", "both"):
                    body = ("seq", (S("("),) + ((op,) if place in ("before", "both") else ()) + (rec,) + ((op,) if place in ("after", "both") else ()) + (S(")"),))
                    starts = [(f"t{k}_{tn}", "", ("seq", (mk(),) + tail)) for tn, mk in tops.items()]
                    rules = TRIVIA[tv] + HELPERS + (("a", "", body),) + tuple(starts)
                    sigma = "()x," + ("a" if not stack else "") + TRIVIA_SIGMA[tv]
                    L = ((6 if tv == "none" else 5) if tier == "quick" else 7) - (1 if len(sigma) > 5 else 0)
                    out.append(Spec(rules, [x[0] for x in starts], inputs_pruned(sigma, L), kmode, f"recursive({rname},{place},{tv})"))
                    k += 1
    return out


def inputs_pruned(sigma: str, L: int):
    """Strings over sigma up to length L that start with '(' or are very short (the recursive templates reject everything else at once)."""
    key = ("pruned", sigma, L)
    if key not in _inputs_cache:
        _inputs_cache[key] = tuple(t for t in gast.strings_upto(sigma, L) if len(t) <= 2 or t[0] == "(")
    return _inputs_cache[key]


RECURSIVE_RULE_TEXT = ("; plus recursive grammars: a = { \"(\" ~ [op] ~ REC ~ [op] ~ \")\" } with REC in {(a ~ \",\")* ~ a?, a?, a*, (a ~ \",\" | a | \"\")} and op (a rule reference / a stack operation) before, after or on both sides of the "
                       "recursive part, called as a*, a, a?, a ~ a? and in an abandoned alternative, on every input over {( ) x ,} (+ a / trivia) up to length 6 (5 under trivia; thorough 7) that starts with \"(\"")


def metachar_specs(kmode: str = "zero", tier: str = "quick", sparse: bool = False):
    """Literals made of characters that mean something in a regular expression (and one non-BMP, one combining sequence), in the places the
    optimizer turns into regular expressions or substring searches: choices of literals, a literal next to a range, case-insensitive
    literals, stops of the skip idiom."""
    lits = META_LITS
    starts = []
    for i, a in enumerate(lits):
        for j, b in enumerate(lits):
            if i != j and (tier == "thorough" or (i + j) % (5 if sparse else 3) == 0 or len(a) + len(b) <= 2):
                starts.append(((), ("", ("seq", (("alt", (S(a), S(b))), R("EOI"))))))
        starts.append(((), ("", ("seq", (("alt", (S(a), ("range", "a", "c"))), R("EOI"))))))
        starts.append(((), ("", ("seq", (("ci", a), R("EOI"))))))
        starts.append(((), ("@", ("seq", (NOT_ANY(S(a)), S(a))))))
        starts.append(((), ("", ("seq", (("star", ("grp", ("alt", (S(a), S("b"))))), R("EOI"))))))
        starts.append(((), ("", ("seq", (("alt", (("ci", a), S("b"))), R("EOI"))))))
        starts.append(((), ("", ("seq", (("pushlit", a), ("pop",), R("EOI"))))))
        starts.append(((), ("", ("seq", (("push", S(a)), ("peek",), ("peekall",), R("EOI"))))))
    ins = sorted(set(lits) | {x + x + x for x in lits} | {"", "a", "b", "ab", "aa", "ac", "abc", "a1", "d", "bb", "A", "A.", "aB", "e", "\u0301"} | {x + x for x in lits[:12]} | {"b" + x for x in lits[:12]} | {x + "b" for x in lits[:12]})
    return batch_specs(starts, HELPERS, tuple(ins), kmode, "metachar-literals")


META_RULE_TEXT = ("; plus metachar-literals: choices of two literals, a literal next to a range, case-insensitive literals, skip-idiom stops, repeated choices, PUSH_LITERAL(l) ~ POP and PUSH(l) ~ PEEK ~ PEEK_ALL built from 35 literals made of regular-expression metacharacters "
                  "(. + [ ] \\ | ( ) ^ $ { ? * - # & ~, blank), a non-BMP character, a combining sequence and its precomposed form, on the literals themselves, doubled, and next to ordinary letters")
U_CORE_SMALL = (("grp",), ("opt",), ("star",), ("plus",), ("and",), ("not",))
EXPLICIT_RULE_TEXT = "; plus explicit-loud-trivia: every expression with <= 3 nodes over {\"a\", WHITESPACE, COMMENT} with ( ) ? * + & ! ~ | as the body of a normal / @ / $ / ! rule, where WHITESPACE (and COMMENT) are non-silent implicit rules - normal, compound-atomic ($) and non-atomic (!)"

SKIP_RULE_TEXT = ("; plus skip shapes: (!stop ~ ANY)* with stop in {\"b\", (\"b\"|\"ab\"), \"bb\", ^\"b\", ^\"ab\", n, (\"a\" ~ \"b\"), a ! rule and an @ rule holding \"a\" ~ \"b\"} in eleven templates (alone, before a terminator, repeated, twice in one sequence, "
                  "re-evaluated after backtracking, through a rule called twice, under & and ?), under the rule modifiers normal / @ / ! (C04 and thorough: all five), with trivia none / WHITESPACE (C04 and thorough: also a one-character COMMENT), "
                  "inputs over {a,b,B}+trivia up to length 4 (3 with trivia or with every start position)")

EXTRA_RULE_TEXT = ("; plus (c) counts: every bound {m} {m,} {,n} {m,n} with counts 0..3 (zero counts included) over \"a\", n and (\"ab\"|\"a\"), alone / before \"a\" / before EOI / in an abandoned alternative / as a direct first alternative, normal and atomic, without and with implicit whitespace; "
                   "(c3) zero-width repetitions: DROP, (&DROP ~ POP), (DROP ~ \"a\"?) under * + {1,} ? {,2} after one or two PUSH_LITERALs, and (&\" \") as the first thing in a rule, followed by nothing / \"b\" / PEEK_ALL / \"a\"*, under implicit whitespace, in normal, ! and @ rules; "
                   "(c4) postfix chains: every counted or plain repetition of \"a\" / n followed directly by a second postfix operator (e{2}+, e{1,2}*, e+{2} ...), inputs over {a,b} up to length 7; (c2) empty-ranges: every expression with <= 3 nodes over {'b'..'a', ('b'..'a' | 'z'..'y'), ('b'..'a' | 'z'..'y' | '9'..'0'), \"a\"}; (d) newline: every expression with <= 2 nodes over {NEWLINE, \"a\", \"\\n\", ANY} on every string over {a, \\r, \\n} up to length 4, also with WHITESPACE = _{ NEWLINE | \" \" }")


def c01_rule_text():
    return ("(a) top level: every expression with <= n nodes over {\"a\",\"b\",\"ab\",\"\",^\"a\",^\"ab\",^\"\",'a'..'b',ANY,EOI,SOI,ASCII_HEX_DIGIT,n,s, PUSH(\"a\"|\"b\"),POP,PEEK,DROP,PEEK_ALL,POP_ALL,PUSH_LITERAL(\"b\"),PEEK[0..],PEEK[-1..], #tt = n, #tt = (n ~ \"b\"), #tt = s} "
            "with ( ) ? * + {2} {1,} {,2} {1,2} & ! ~ |, x start-rule modifier x trivia configuration; "
            "(b) contexts: every hole expression placed at top level, left/right of a sequence, as an alternative that commits and is then abandoned ((HOLE ~ \"!\") | ANY*), under ? * + {2} {1,} {,2} {1,2} with the same abandon trick, "
            "under & ! !! , inside PUSH( ), after a pre-pushed stack entry, as the whole body of a rule called with one or two entries on the stack, and as the body of a _ @ $ ! rule called from a normal, an atomic and a compound parent (43 contexts, among them ? {,2} * directly over PUSH( ) and over a rule reference whose body commits and then fails); "
            "(b2) contexts composed with contexts: outer(inner(terminal)) for every terminal and every pair of contexts from a list of 13 (quick; 7 for the checks that try every start position; thorough: all 30 single-rule contexts, also with WHITESPACE) - expressions of 6 to 12 nodes; "
            "x every string over {a,b,A}+trivia symbols up to the length bound; start rules are batched 40 per grammar and failing cases re-run on the isolated rule" + EXTRA_RULE_TEXT)
