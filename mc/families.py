"""Shared building blocks of the grammar/input families (DESIGN.md section 3)."""

from __future__ import annotations

from . import gast
from .engine import Spec

S = lambda s: ("str", s)  # noqa: E731
R = lambda n: ("ref", n)  # noqa: E731

# helper rules: n non-silent, s silent (produces a pair and can then still fail)
HELPERS = (("n", "", S("a")), ("s", "_", ("seq", (R("n"), S("b")))))

T_CORE = (S("a"), S("b"), S("ab"), ("ci", "a"), ("range", "a", "b"), R("ANY"), R("EOI"), R("n"), R("s"))
SIGMA_CORE = "abA"

_inputs_cache: dict = {}


def inputs(alphabet: str, maxlen: int) -> list[str]:
    key = (alphabet, maxlen)
    if key not in _inputs_cache:
        _inputs_cache[key] = gast.strings_upto(alphabet, maxlen)
    return _inputs_cache[key]


def core_exprs(n: int, terminals=T_CORE, unary=gast.U_CORE, helpers=HELPERS, exact: bool = False, ternary: bool = False):
    env = gast.Env(helpers)
    if exact:
        memo: dict = {}
        return gast.exprs_of_size(n, tuple(terminals), tuple(unary), ("seq", "alt"), env, ternary, memo)
    return gast.exprs_upto(n, tuple(terminals), tuple(unary), ("seq", "alt"), env, ternary)


def wf(rules) -> bool:
    return gast.well_formed(rules)


TRIVIA = {
    "none": (),
    "ws": (("WHITESPACE", "_", S(" ")),),
    "ws_loud": (("WHITESPACE", "", S(" ")),),
    "cm2": (("COMMENT", "_", ("seq", (S("#"), S("!")))),),
    "both": (("WHITESPACE", "_", S(" ")), ("COMMENT", "_", ("seq", (S("#"), S("!"))))),
    "ws_choice": (("WHITESPACE", "_", ("alt", (S(" "), S("\t")))),),
    "cm1": (("COMMENT", "_", S("#")),),
    "both_loud": (("WHITESPACE", "", S(" ")), ("COMMENT", "", S("#"))),
}
TRIVIA_SIGMA = {
    "none": "", "ws": " ", "ws_loud": " ", "cm2": "#!", "both": " #!", "ws_choice": " \t", "cm1": "#", "both_loud": " #",
}
