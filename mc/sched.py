"""Cooperative interleaving explorer for real threads (iterative context bounding).

Real threading.Thread objects, exactly one runnable at any time.  A sys.settrace hook yields to the
controller at every `line` event whose code lives under $VERIF_REPO/src/pest or in a generated module;
everything else (stdlib, the `regex` C extension) runs atomically inside a step.  A schedule is
(initial thread, set of global step numbers at which the running thread is preempted); every schedule
is replayable and a divergence while replaying is a hard error.
"""

from __future__ import annotations

import os
import sys
import threading

from . import common

PEST_DIR = os.path.join(common.SRC, "pest") + os.sep


def _traced(filename: str) -> bool:
    return filename.startswith(PEST_DIR) or filename.startswith("_mc_generated_")


class Execution:
    """One controlled execution of n thread bodies under a given schedule."""

    def __init__(self, bodies, initial, switches, atomic=()):
        self.bodies = bodies
        self.n = len(bodies)
        self.initial = initial
        self.switches = switches          # set of global step indices (1-based) at which to preempt
        self.atomic = set(atomic)         # thread indices that run as one step (never preempted, no tracing)
        self.go = [threading.Semaphore(0) for _ in bodies]
        self.ctl = threading.Semaphore(0)
        self.done = [False] * self.n
        self.results = [None] * self.n
        self.errors = [None] * self.n
        self.steps = [0] * self.n
        self.gstep = 0
        self.current = initial
        self.want_switch = False
        self.trace = []                   # (thread, global step) at each switch

    def _tracer(self, idx):
        ex = self

        def local(frame, event, arg):
            if event == "line":
                ex.steps[idx] += 1
                ex.gstep += 1
                if ex.gstep in ex.switches and any(not ex.done[j] for j in range(ex.n) if j != idx):
                    # preemption point: hand control back to the controller
                    ex.want_switch = True
                    ex.ctl.release()
                    ex.go[idx].acquire()
            return local

        def glob(frame, event, arg):
            if event == "call" and _traced(frame.f_code.co_filename):
                return local
            return None

        return glob

    def _run(self, idx):
        self.go[idx].acquire()
        if idx not in self.atomic:
            sys.settrace(self._tracer(idx))
        try:
            self.results[idx] = self.bodies[idx]()
        except BaseException as exc:  # noqa: BLE001
            self.errors[idx] = exc
            self.results[idx] = ("exc", type(exc).__name__, str(exc)[:100])
        finally:
            sys.settrace(None)
            self.done[idx] = True
            self.ctl.release()

    def run(self):
        threads = [threading.Thread(target=self._run, args=(i,), daemon=True) for i in range(self.n)]
        for t in threads:
            t.start()
        cur = self.initial
        while True:
            self.want_switch = False
            self.go[cur].release()
            if not self.ctl.acquire(timeout=60):
                raise common.HarnessError("scheduler: no progress for 60 s (deadlock or hang)")
            if all(self.done):
                break
            # either cur finished, or it asked to be preempted: pick the next unfinished thread
            nxt = None
            for j in range(1, self.n + 1):
                c = (cur + j) % self.n
                if not self.done[c] and (c != cur or not self.want_switch):
                    nxt = c
                    break
            if nxt is None:
                nxt = cur
            if nxt != cur:
                self.trace.append((cur, nxt, self.gstep))
            cur = nxt
        for t in threads:
            t.join(5)
        return self.results, list(self.steps), list(self.trace)


def explore(make_bodies, sequential, bound=1, atomic=(), max_executions=None, part=0, nparts=1):
    """Enumerate every schedule with at most `bound` preemptions.

    make_bodies() -> list of callables on FRESH shared objects (called once per execution);
    sequential -> list of expected observations (each thread's body run alone on fresh objects).
    Returns (stats, violations).
    """
    stats = {"executions": 0, "scheduling_points": 0, "distinct_outcomes": 0, "max_steps": 0, "schedules_with_interleaving": 0}
    outcomes = set()
    violations = []
    n = len(sequential)

    def run(initial, switches):
        ex = Execution(make_bodies(), initial, set(switches), atomic)
        res, steps, trace = ex.run()
        stats["executions"] += 1
        stats["scheduling_points"] += sum(steps)
        stats["max_steps"] = max(stats["max_steps"], sum(steps))
        if trace and any(g for _, _, g in trace if g in switches):
            stats["schedules_with_interleaving"] += 1
        outcomes.add(repr(res))
        for i in range(n):
            if res[i] != sequential[i]:
                violations.append({"kind": "differs-from-sequential", "thread": i, "initial": initial, "switches": sorted(switches), "expected": sequential[i], "got": res[i]})
        return steps, ex.gstep

    for initial in range(n):
        # determinism: the preemption-free schedule twice
        a = run(initial, ())
        b = run(initial, ())
        if a != b:
            raise common.HarnessError(f"scheduler is not deterministic: {a} vs {b}")
        steps0, total0 = a
        first_len = steps0[initial]
        frontier = [()]
        for depth in range(bound):
            nxt = []
            for sw in frontier:
                lo = (sw[-1] + 1) if sw else 1
                # a preemption only matters while some thread other than the running one is unfinished;
                # global steps beyond the end of the run cannot be reached
                hi = total0 if sw else first_len
                for g in range(lo, hi + 1):
                    if not sw and (g - 1) % nparts != part:
                        continue  # the space is partitioned over workers by the first preemption point
                    if max_executions and stats["executions"] >= max_executions:
                        stats["cap_hit"] = True
                        break
                    cand = sw + (g,)
                    run(initial, cand)
                    nxt.append(cand)
            frontier = nxt
    stats["distinct_outcomes"] = len(outcomes)
    return stats, violations
