"""Binding the reference model to ground truth.

The repository's suite holds expectations translated from pest's own test-suite.  Every
`parser.parse("<rule>", "<literal>")` call with literal arguments is extracted with `ast`, the
corresponding .pest file is loaded through the meta-grammar oracle, and refpeg must agree with the
implementation (mode IU, which the suite asserts equals pest on those samples).
A disagreement is a harness error (the model is wrong, or the sample hits a listed finding).
"""

from __future__ import annotations

import ast
import os
import re

from . import common, metaref, modes, refpeg

TEST_FILES = [
    "test_grammar.py", "test_json_grammar.py", "test_toml_grammar.py", "test_sql_grammar.py",
    "test_http_grammar.py", "test_lists_grammar.py", "test_surround_grammar.py", "test_reporting.py",
]


def extract_samples():
    out = []
    tdir = os.path.join(common.REPO, "tests")
    for fn in TEST_FILES:
        path = os.path.join(tdir, fn)
        if not os.path.exists(path):
            continue
        src = open(path, encoding="utf-8").read()
        m = re.search(r'open\(\s*"(tests/grammars/[a-z_]+\.pest)"', src)
        if not m:
            continue
        gpath = os.path.join(common.REPO, m.group(1))
        for node in ast.walk(ast.parse(src)):
            if (isinstance(node, ast.Call) and isinstance(node.func, ast.Attribute) and node.func.attr == "parse"
                    and isinstance(node.func.value, ast.Name) and node.func.value.id == "parser"
                    and len(node.args) == 2 and all(isinstance(a, ast.Constant) and isinstance(a.value, str) for a in node.args)):
                out.append((gpath, node.args[0].value, node.args[1].value))
    return out


def unicode_props():
    """Predicates for the built-in Unicode property rules (taken from the library's own table; C12
    claims only cross-mode agreement for them, so this is not an independent oracle)."""
    import regex
    from pest.grammar.rules.unicode import UNICODE_RULES

    props = {}
    for name, rule in UNICODE_RULES.items():
        pat = regex.compile(rule.expression.pattern)
        props[name] = (lambda c, _p=pat: _p.match(c) is not None)
    return props


def _validate(_):
    samples = extract_samples()
    orc = metaref.oracle()
    props = unicode_props()
    cache = {}
    bad = []
    for gpath, rule, text in samples:
        if gpath not in cache:
            gtext = open(gpath, encoding="utf-8").read()
            d = orc.denote(gtext)
            if d is None:
                raise common.HarnessError(f"meta-grammar rejects {gpath}")
            g = refpeg.Grammar([(n, m, b) for n, m, b, _ in d[0]], unicode_props=props)
            cache[gpath] = (g, modes.build(gtext, "IU"))
        g, iu = cache[gpath]
        mo = refpeg.observe(g, rule, text)
        io = modes.observe(iu, rule, text)
        if not modes.same_outcome_as_model(io, mo):
            bad.append({"grammar": os.path.relpath(gpath, common.REPO), "rule": rule, "input": text, "model": mo, "impl": io})
    return len(samples), bad


def run_validation() -> tuple[int, list]:
    """Returns (number of pinned samples on which model and implementation agree, disagreements)."""
    import sys

    sys.setrecursionlimit(max(sys.getrecursionlimit(), 20000))
    (n, bad), = common.parallel_map(_validate, [None])
    return n, bad
