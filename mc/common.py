"""Shared infrastructure: repo binding, evidence, findings, replay files, workers."""

from __future__ import annotations

import hashlib
import json
import multiprocessing
import os
import random
import signal
import sys
import time
import traceback
from typing import Any, Callable, Iterable

VERIF = os.path.dirname(os.path.dirname(os.path.abspath(__file__)))
REPO = os.environ.get("VERIF_REPO", "/repo")
SRC = os.path.join(REPO, "src")
# seeded-change experiments redirect their output so that committed evidence is never overwritten
EVIDENCE_DIR = os.environ.get("VERIF_EVIDENCE_DIR") or os.path.join(VERIF, "evidence")
REPLAY_DIR = os.environ.get("VERIF_REPLAY_DIR") or os.path.join(VERIF, "replays")
FINDINGS_FILE = os.path.join(VERIF, "known_findings.json")
GUARD = "PEST_VERIF"

sys.dont_write_bytecode = True
os.environ.setdefault("PYTHONDONTWRITEBYTECODE", "1")
os.environ.setdefault("PYTHONHASHSEED", "0")
os.environ.setdefault(GUARD, "1")


class HarnessError(Exception):
    """The harness (not the library) is wrong or cannot read what it needs."""


def bind_repo() -> None:
    """Make `import pest` resolve to $VERIF_REPO/src (the current working tree)."""
    if SRC not in sys.path[:1]:
        sys.path.insert(0, SRC)
    # the examples package (calculator, json) lives at the repository root
    if REPO not in sys.path:
        sys.path.insert(1, REPO)
    import pest  # noqa: F401

    got = os.path.realpath(os.path.dirname(pest.__file__))
    want = os.path.realpath(os.path.join(SRC, "pest"))
    if got != want:
        raise HarnessError(f"pest imported from {got}, expected {want}")


def seed() -> int:
    try:
        return int(os.environ.get("VERIF_SEED", "0"))
    except ValueError:
        return 0


def workers() -> int:
    try:
        return max(1, int(os.environ.get("VERIF_WORKERS", "0")) or (os.cpu_count() or 4))
    except ValueError:
        return os.cpu_count() or 4


# --------------------------------------------------------------------------- parallel


def _run_task(args):
    func, payload = args
    try:
        return ("ok", func(payload))
    except BaseException as exc:  # noqa: BLE001
        return ("err", f"{type(exc).__name__}: {exc}\n{traceback.format_exc()}")


def parallel_map(func: Callable[[Any], Any], payloads: list[Any], *, fresh: bool = True,
                 nworkers: int | None = None, order_seed: int | None = None) -> list[Any]:
    """Run func(payload) for every payload in forked children of this (pristine) process.

    fresh=True gives every payload its own forked child (maxtasksperchild=1), so that
    process-global library state never leaks between payloads.  Results are returned in
    payload order whatever the scheduling order was.
    """
    n = len(payloads)
    if n == 0:
        return []
    nworkers = nworkers or workers()
    idx = list(range(n))
    if order_seed:
        random.Random(order_seed).shuffle(idx)
    if nworkers == 1 and not fresh:
        out = [_run_task((func, p)) for p in payloads]
    else:
        ctx = multiprocessing.get_context("fork")
        with ctx.Pool(min(nworkers, n), maxtasksperchild=1 if fresh else None) as pool:
            res = pool.map(_run_task, [(func, payloads[i]) for i in idx], chunksize=1)
        out = [None] * n
        for i, r in zip(idx, res):
            out[i] = r
    final = []
    for tag, val in out:
        if tag == "err":
            raise HarnessError("worker failed:\n" + val)
        final.append(val)
    return final


class Watchdog:
    """Turn a hang into an exception (SIGALRM)."""

    class Timeout(BaseException):
        pass

    def __init__(self, seconds: int):
        self.seconds = seconds

    def _fire(self, *_):
        raise Watchdog.Timeout()

    def __enter__(self):
        self.old = signal.signal(signal.SIGALRM, self._fire)
        signal.alarm(self.seconds)
        return self

    def __exit__(self, *exc):
        signal.alarm(0)
        signal.signal(signal.SIGALRM, self.old)
        return False


# --------------------------------------------------------------------------- findings


def load_findings() -> dict:
    if not os.path.exists(FINDINGS_FILE):
        return {"findings": [], "fixed": []}
    with open(FINDINGS_FILE) as fh:
        return json.load(fh)


def open_findings(prop: str) -> list[dict]:
    return [f for f in load_findings().get("findings", []) if f["property"] == prop and f.get("status", "open") == "open"]


def fixed_findings(prop: str) -> list[dict]:
    return [f for f in load_findings().get("findings", []) if f["property"] == prop and f.get("status") == "fixed"]


# --------------------------------------------------------------------------- reporting


class Report:
    """Collects the outcome of one check run and writes evidence / replay files."""

    def __init__(self, prop: str, tier: str, level: str):
        self.prop = prop
        self.tier = tier
        self.level = level
        self.t0 = time.time()
        self.coverage: dict[str, Any] = {}
        self.assumptions: list[str] = []
        self.violations: list[dict] = []      # unlisted
        self.known_hits: dict[str, int] = {}  # finding id -> number of explored cases
        self.known_titles: dict[str, str] = {}
        self.max_replays = 20

    # -- violations
    def violation(self, case: dict) -> None:
        self.violations.append(case)

    def known(self, finding: dict, n: int = 1) -> None:
        fid = finding["id"]
        self.known_hits[fid] = self.known_hits.get(fid, 0) + n
        self.known_titles[fid] = finding.get("title", "")

    def write_replay(self, case: dict) -> str:
        os.makedirs(os.path.join(REPLAY_DIR, self.prop), exist_ok=True)
        blob = json.dumps(case, sort_keys=True, ensure_ascii=True, default=repr)
        h = hashlib.sha1(blob.encode()).hexdigest()[:12]
        path = os.path.join(REPLAY_DIR, self.prop, f"{h}.json")
        with open(path, "w") as fh:
            json.dump({"property": self.prop, **case}, fh, indent=1, sort_keys=True, default=repr)
        return path

    # -- finish
    def finish(self) -> int:
        wall = time.time() - self.t0
        cov = dict(self.coverage)
        cov.setdefault("known_findings_observed", dict(sorted(self.known_hits.items())))
        ev = {
            "property_id": self.prop,
            "tier": self.tier,
            "seed": seed(),
            "level": self.level,
            "coverage": cov,
            "assumptions": self.assumptions,
            "wall_s": round(wall, 3),
            "violations": len(self.violations),
        }
        validate_evidence(ev)
        os.makedirs(EVIDENCE_DIR, exist_ok=True)
        tmp = os.path.join(EVIDENCE_DIR, f".{self.prop}.json.tmp")
        with open(tmp, "w") as fh:
            json.dump(ev, fh, indent=1, default=repr)
        os.replace(tmp, os.path.join(EVIDENCE_DIR, f"{self.prop}.json"))
        for fid in sorted(self.known_hits):
            print(f"KNOWN-FINDING: property={self.prop} {fid} {self.known_titles[fid]} ({self.known_hits[fid]} cases)")
        for case in self.violations[: self.max_replays]:
            path = self.write_replay(case)
            print(f"VIOLATION property={self.prop} replay={path}")
            brief = {k: case[k] for k in case if k in ("kind", "family", "grammar", "rule", "input", "start_pos", "mode", "expected", "got", "ops", "detail", "table", "stream", "text", "optimizer",
                                                          "expr", "cp_hex", "impl", "harness", "switches", "initial", "machine", "grammar_file", "rewrite", "site_text", "probe_object")}
            print("  " + json.dumps(brief, default=repr, ensure_ascii=True)[:700])
        if len(self.violations) > self.max_replays:
            print(f"  ... and {len(self.violations) - self.max_replays} more violations (not written)")
        summary = {k: v for k, v in cov.items() if isinstance(v, (int, float, bool, str)) and k != "rule"}
        print(f"[{self.prop}/{self.tier}] wall={wall:.1f}s violations={len(self.violations)} known={sum(self.known_hits.values())} {json.dumps(summary)[:900]}")
        sys.stdout.flush()
        return 1 if self.violations else 0


def validate_evidence(ev: dict) -> None:
    """Minimal structural validation against EVIDENCE.schema.json (hand-written: /venv has no jsonschema)."""
    for k in ("property_id", "tier", "seed", "level", "coverage", "wall_s"):
        if k not in ev:
            raise HarnessError(f"evidence lacks {k}")
    cov = ev["coverage"]
    level = ev["level"]
    if not isinstance(cov.get("samples"), list) or not cov["samples"]:
        raise HarnessError("evidence.coverage.samples must be a non-empty list")
    if level == "model_checking" and all(k in cov for k in ("states", "transitions", "traces_validated_against_impl")):
        if cov["states"] < 1 or cov["transitions"] < 1:
            raise HarnessError("model_checking evidence needs states/transitions >= 1")
    else:
        if cov.get("evaluations", 0) < 1 or cov.get("distinct_nontrivial", 0) < 2 or "rule" not in cov:
            raise HarnessError("evidence needs evaluations>=1, distinct_nontrivial>=2, rule")
    # everything must be JSON serialisable
    json.dumps(ev, default=repr)


def pick_samples(items: list, k: int = 5) -> list:
    if len(items) <= k:
        return list(items)
    rnd = random.Random(seed() * 7919 + 13)
    return [items[i] for i in sorted(rnd.sample(range(len(items)), k))]


def chunked(seq: Iterable, size: int) -> list[list]:
    out, cur = [], []
    for x in seq:
        cur.append(x)
        if len(cur) >= size:
            out.append(cur)
            cur = []
    if cur:
        out.append(cur)
    return out
