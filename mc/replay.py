"""Replay one recorded violation without the explorer: python -m mc.replay <file>.

Exit 1 if the recorded case still violates its property on the current tree, 0 if not.
"""

from __future__ import annotations

import importlib
import json
import sys

from . import common


def main(argv=None) -> int:
    argv = sys.argv[1:] if argv is None else argv
    if len(argv) != 1:
        print("usage: python -m mc.replay <replay.json>")
        return 2
    with open(argv[0]) as fh:
        case = json.load(fh)
    prop = case["property"]
    try:
        common.bind_repo()
        mod = importlib.import_module(f"mc.checks.{prop.lower()}")
        bad = mod.replay_case(case)
    except common.HarnessError as exc:
        print(f"HARNESS-ERROR property={prop} {exc}")
        return 2
    print(f"property={prop} still_violates={bool(bad)}")
    return 1 if bad else 0


if __name__ == "__main__":
    sys.exit(main())
