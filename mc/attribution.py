"""Listed findings versus new violations for grammar cases (DESIGN.md section 7).

A failing case is *listed* iff an open finding of the same property explains it.  Everything else
is reported as a VIOLATION (smallest first).
"""

from __future__ import annotations

import json
import os

from . import common


def case_key(c: dict):
    return (c["grammar"], c["rule"], c["input"], c.get("start_pos", 0), c["mode"])


def attribute(prop: str, failures: list, total_failures: int, rep: common.Report) -> dict:
    findings = common.open_findings(prop)
    exact = {}
    for f in findings:
        for w in f.get("witnesses", []):
            if "grammar" in w:
                exact[case_key(w)] = f
    listed = 0
    unlisted = []
    for c in failures:
        f = exact.get(case_key(c))
        if f is not None:
            rep.known(f)
            listed += 1
        else:
            unlisted.append(c)
    # report distinct (mode, kind) symptoms first, smallest case each
    seen = set()
    ordered = []
    rest = []
    for c in unlisted:
        sym = (c["mode"], c["kind"])
        if sym not in seen:
            seen.add(sym)
            ordered.append(c)
        else:
            rest.append(c)
    if os.environ.get("VERIF_TRIAGE") and unlisted:
        groups: dict = {}
        for c in unlisted:
            key = (c["mode"].split("[")[0], c["kind"], c["grammar"])
            g = groups.setdefault(key, [0, c, set()])
            g[0] += 1
            g[2].add(c["mode"])
        print(f"TRIAGE: {len(unlisted)} unlisted failing cases in {len(groups)} (mode, kind, grammar) groups; smallest grammars first")
        for key in sorted(groups, key=lambda k: (len(k[2]), k))[: int(os.environ.get("VERIF_TRIAGE_N", "40"))]:
            n, c, ms = groups[key]
            print(f"  [{key[0]} {key[1]} x{n} modes={len(ms)}] {key[2]!r} input={c['input']!r} k={c.get('start_pos', 0)} expected={json.dumps(c.get('expected'))[:160]} got={json.dumps(c.get('got'))[:160]}")
    for c in ordered + rest:
        rep.violation(c)
    if total_failures > len(failures) and not unlisted:
        # failures beyond the per-chunk cap were not examined individually: cannot call them listed
        rep.violation({"kind": "unexamined-failures", "mode": "-", "grammar": "", "rule": "", "input": "",
                       "detail": f"{total_failures - len(failures)} failing cases beyond the per-chunk cap were not attributed"})
    return {"listed": listed, "unlisted": len(unlisted), "open_findings": len(findings)}
