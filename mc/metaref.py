"""Grammar-syntax oracle: pest's own meta-grammar (tests/grammars/meta.pest) executed by refpeg.

* parse_text(): a small hand-written recursive-descent parser for pest grammar text into gast.
  It exists to bootstrap (it loads meta.pest) and as an accelerator; it is itself checked against
  the meta-grammar oracle (fixpoint on meta.pest, agreement on every bundled grammar).
* MetaOracle: accepts(text) / denote(text) computed from the meta-grammar's own parse tree under
  the reference semantics -- "pest's meta-grammar under pest's semantics".
"""

from __future__ import annotations

import os

from . import common, refpeg

META_PATH = os.path.join(common.REPO, "tests", "grammars", "meta.pest")


class SyntaxErr(Exception):
    pass


# ----------------------------------------------------------------------------- hand parser

class _P:
    def __init__(self, text: str):
        self.t = text
        self.i = 0
        self.n = len(text)

    def err(self, msg):
        raise SyntaxErr(f"{msg} at {self.i}")

    # trivia: WHITESPACE = " " | "\t" | newline ; COMMENT = block | line (not /// or //!)
    def _block_comment(self, i):
        t = self.t
        if not t.startswith("/*", i):
            return -1
        i += 2
        while True:
            if t.startswith("*/", i):
                return i + 2
            j = self._block_comment(i)
            if j >= 0:
                i = j
                continue
            if i >= self.n:
                return -1
            i += 1

    def skip(self):
        t = self.t
        while True:
            i = self.i
            if i < self.n and t[i] in " \t\n":
                self.i += 1
                continue
            if t.startswith("\r\n", i):
                self.i += 2
                continue
            j = self._block_comment(i)
            if j >= 0:
                self.i = j
                continue
            if t.startswith("//", i) and not (t.startswith("///", i) or t.startswith("//!", i)):
                j = i + 2
                while j < self.n and not (t[j] == "\n" or t.startswith("\r\n", j)):
                    j += 1
                self.i = j
                continue
            return

    def lit(self, s):
        if self.t.startswith(s, self.i):
            self.i += len(s)
            return True
        return False

    @staticmethod
    def _alpha(c):
        return "a" <= c <= "z" or "A" <= c <= "Z"

    def identifier(self):
        t, i = self.t, self.i
        if t.startswith("PUSH", i):
            return None
        if i < self.n and (t[i] == "_" or self._alpha(t[i])):
            j = i + 1
            while j < self.n and (t[j] == "_" or self._alpha(t[j]) or "0" <= t[j] <= "9"):
                j += 1
            self.i = j
            return t[i:j]
        return None

    def doc(self, marker):
        """grammar_doc / line_doc: marker ~ space? ~ inner_doc (compound atomic)."""
        if not self.lit(marker):
            return None
        if self.i < self.n and self.t[self.i] in " \t":
            self.i += 1
        j = self.i
        t = self.t
        while j < self.n and not (t[j] == "\n" or t.startswith("\r\n", j)):
            j += 1
        s = t[self.i:j]
        self.i = j
        return s

    def escape(self):
        """escape = "\\" ~ (quote | "\\" | r | n | t | 0 | ' | code | unicode); returns decoded char or None."""
        t, i = self.t, self.i
        if not t.startswith("\\", i) or i + 1 >= self.n:
            return None
        c = t[i + 1]
        simple = {'"': '"', "\\": "\\", "r": "\r", "n": "\n", "t": "\t", "0": "\0", "'": "'"}
        if c in simple:
            self.i = i + 2
            return simple[c]
        hexd = "0123456789abcdefABCDEF"
        if c == "x":
            h = t[i + 2:i + 4]
            if len(h) == 2 and all(x in hexd for x in h):
                self.i = i + 4
                return chr(int(h, 16))
            return None
        if c == "u" and t.startswith("{", i + 2):
            j = i + 3
            while j < self.n and t[j] in hexd and j - (i + 3) < 6:
                j += 1
            k = j - (i + 3)
            if 2 <= k <= 6 and t.startswith("}", j):
                self.i = j + 1
                v = int(t[i + 3:j], 16)
                if v > 0x10FFFF:
                    return ("BADCP", v)
                return chr(v)
        return None

    def string(self):
        if not self.lit('"'):
            return None
        out = []
        t = self.t
        while True:
            while self.i < self.n and t[self.i] not in '"\\':
                out.append(t[self.i])
                self.i += 1
            if self.i < self.n and t[self.i] == "\\":
                c = self.escape()
                if c is None:
                    break  # inner_str stops; the closing quote must follow (it will not)
                out.append(c)
                continue
            break
        if not self.lit('"'):
            self.err("unterminated string")
        return out

    def character(self):
        if not self.lit("'"):
            return None
        c = self.escape()
        if c is None:
            if self.i >= self.n:
                self.err("bad char")
            c = self.t[self.i]
            self.i += 1
        if not self.lit("'"):
            self.err("bad char")
        return c

    def number(self):
        i = self.i
        while self.i < self.n and "0" <= self.t[self.i] <= "9":
            self.i += 1
        return self.t[i:self.i] if self.i > i else None

    def integer(self):
        """integer = number | "-" ~ "0"* ~ '1'..'9' ~ number?"""
        s = self.number()
        if s is not None:
            return int(s)
        i = self.i
        if self.lit("-"):
            while self.lit("0"):
                pass
            if self.i < self.n and "1" <= self.t[self.i] <= "9":
                self.i += 1
                self.number()
                return int(self.t[i:self.i])
        self.i = i
        return None

    @staticmethod
    def _join(chars):
        return chars  # list of decoded chars (or BADCP markers)

    def terminal(self):
        i = self.i
        # _push_literal
        if self.lit("PUSH_LITERAL"):
            self.skip()
            if self.lit("("):
                self.skip()
                try:
                    s = self.string()
                except SyntaxErr:
                    s = None
                if s is not None:
                    self.skip()
                    if self.lit(")"):
                        return ("pushlit", _mk(s))
            self.i = i
        # _push
        if self.lit("PUSH"):
            self.skip()
            if self.lit("("):
                self.skip()
                j = self.i
                try:
                    e = self.expression()
                    self.skip()
                    if self.lit(")"):
                        return ("push", e)
                except SyntaxErr:
                    pass
                self.i = j
            self.i = i
        # peek_slice
        if self.lit("PEEK"):
            self.skip()
            if self.lit("["):
                self.skip()
                a = self.integer()
                if a is not None:
                    self.skip()
                if self.lit(".."):
                    self.skip()
                    b = self.integer()
                    if b is not None:
                        self.skip()
                    if self.lit("]"):
                        return ("slice", a, b)
            self.i = i
        name = self.identifier()
        if name is not None:
            kw = {"PEEK": ("peek",), "POP": ("pop",), "DROP": ("drop",), "PEEK_ALL": ("peekall",), "POP_ALL": ("popall",)}
            return kw.get(name, ("ref", name))
        s = self.string()
        if s is not None:
            return ("str", _mk(s))
        if self.lit("^"):
            self.skip()
            s = self.string()
            if s is None:
                self.err("expected string")
            return ("ci", _mk(s))
        c = self.character()
        if c is not None:
            self.skip()
            if not self.lit(".."):
                self.err("expected ..")
            self.skip()
            d = self.character()
            if d is None:
                self.err("expected char")
            return ("range", _mk([c]), _mk([d]))
        self.err("expected terminal")

    def term(self):
        tag = None
        i = self.i
        if self.lit("#"):
            j = self.i
            if j < self.n and (self.t[j] == "_" or self._alpha(self.t[j])):
                k = j + 1
                while k < self.n and (self.t[k] == "_" or self._alpha(self.t[k]) or "0" <= self.t[k] <= "9"):
                    k += 1
                self.i = k
                self.skip()
                if self.lit("="):
                    tag = self.t[j:k]
                    self.skip()
            if tag is None:
                self.i = i
                self.err("bad tag")
        prefixes = []
        while True:
            if self.lit("&"):
                prefixes.append("and")
            elif self.lit("!"):
                prefixes.append("not")
            else:
                break
            self.skip()
        if self.lit("("):
            self.skip()
            e = self.expression()
            self.skip()
            if not self.lit(")"):
                self.err("expected )")
            node = ("grp", e)
        else:
            node = self.terminal()
        while True:
            save = self.i
            self.skip()
            if self.lit("?"):
                node = ("opt", node)
            elif self.lit("*"):
                node = ("star", node)
            elif self.lit("+"):
                node = ("plus", node)
            elif self.lit("{"):
                r = self._repeat(node)
                if r is None:
                    self.i = save
                    break
                node = r
            else:
                self.i = save
                break
        for p in reversed(prefixes):
            node = (p, node)
        if tag is not None:
            node = ("tag", tag, node)
        return node

    def _repeat(self, node):
        self.skip()
        a = self.number()
        if a is not None:
            self.skip()
            if self.lit("}"):
                return ("exact", node, int(a))
            if self.lit(","):
                self.skip()
                if self.lit("}"):
                    return ("min", node, int(a))
                b = self.number()
                if b is not None:
                    self.skip()
                    if self.lit("}"):
                        return ("minmax", node, int(a), int(b))
            return None
        if self.lit(","):
            self.skip()
            b = self.number()
            if b is not None:
                self.skip()
                if self.lit("}"):
                    return ("max", node, int(b))
        return None

    def expression(self):
        if self.lit("|"):
            self.skip()
        alts = [[self.term()]]
        while True:
            save = self.i
            self.skip()
            if self.lit("~"):
                self.skip()
                alts[-1].append(self.term())
            elif self.lit("|"):
                self.skip()
                alts.append([self.term()])
            else:
                self.i = save
                break
        seqs = [a[0] if len(a) == 1 else ("seq", tuple(a)) for a in alts]
        return seqs[0] if len(seqs) == 1 else ("alt", tuple(seqs))

    def grammar(self):
        gdoc, rules = [], []
        self.skip()
        while True:
            d = self.doc("//!")
            if d is None:
                break
            gdoc.append(d)
            self.skip()
        pending_doc = []
        while self.i < self.n:
            d = self.doc("///")
            if d is not None:
                pending_doc.append(d)
                self.skip()
                continue
            name = self.identifier()
            if name is None:
                self.err("expected rule")
            self.skip()
            if not self.lit("="):
                self.err("expected =")
            self.skip()
            mod = ""
            if self.i < self.n and self.t[self.i] in "_@$!":
                mod = self.t[self.i]
                self.i += 1
                self.skip()
            if not self.lit("{"):
                self.err("expected {")
            self.skip()
            e = self.expression()
            self.skip()
            if not self.lit("}"):
                self.err("expected }")
            rules.append((name, mod, e, tuple(pending_doc)))
            pending_doc = []
            self.skip()
        return rules, gdoc, pending_doc


def _mk(chars):
    """Decoded characters -> str; a code point above U+10FFFF makes the literal undenotable."""
    if any(isinstance(c, tuple) for c in chars):
        return ("BADCP",)
    return "".join(chars)


def parse_text(text: str):
    """Hand parser: (rules [(name, mod, body, doc)], grammar_doc, trailing_docs). Raises SyntaxErr."""
    return _P(text).grammar()


# ----------------------------------------------------------------------------- the oracle

class MetaOracle:
    def __init__(self, meta_path: str = META_PATH):
        with open(meta_path) as fh:
            self.meta_text = fh.read()
        rules, _, _ = parse_text(self.meta_text)
        self.meta_rules = [(n, m, b) for n, m, b, _ in rules]
        self.g = refpeg.Grammar(self.meta_rules)
        # fixpoint: the meta-grammar accepts its own text and denotes the structure the hand parser read
        tree = self.tree(self.meta_text)
        if tree is None:
            raise common.HarnessError("meta-grammar (under refpeg) rejects its own text")
        again = self.rules_from_tree(tree, self.meta_text)
        if [(n, m, normalize(b)) for n, m, b, _ in again[0]] != [(n, m, normalize(b)) for n, m, b in self.meta_rules]:
            raise common.HarnessError("meta-grammar fixpoint failed: hand parser and meta-grammar disagree on meta.pest")

    def tree(self, text: str):
        r = refpeg.parse(self.g, "grammar_rules", text)
        return None if r is refpeg.FAIL else r

    def accepts(self, text: str) -> bool:
        try:
            return self.tree(text) is not None
        except RecursionError:
            raise common.HarnessError("reference recursion limit") from None

    def denote(self, text: str):
        """None if rejected, else (rules [(name, mod, body, doc)], grammar_doc)."""
        t = self.tree(text)
        if t is None:
            return None
        return self.rules_from_tree(t, text)

    # -- conversion of the meta-grammar's parse tree into gast
    def rules_from_tree(self, tree, text):
        gdoc, rules, pending = [], [], []
        for p in tree:
            name = p[0]
            if name == "grammar_doc":
                gdoc.append(_inner_doc(p, text))
            elif name == "grammar_rule":
                kids = p[3]
                if kids and kids[0][0] == "line_doc":
                    pending.append(_inner_doc(kids[0], text))
                    continue
                ident = text[kids[0][1]:kids[0][2]]
                mod = ""
                expr = None
                for k in kids[1:]:
                    if k[0].endswith("_modifier"):
                        mod = text[k[1]:k[2]]
                    elif k[0] == "expression":
                        expr = self._expr(k, text)
                rules.append((ident, mod, expr, tuple(pending)))
                pending = []
            elif name == "EOI":
                pass
            else:
                raise common.HarnessError(f"unexpected top-level pair {name}")
        return rules, gdoc

    def _expr(self, p, text):
        kids = [k for k in p[3]]
        alts = [[]]
        first = True
        for k in kids:
            if k[0] == "choice_operator":
                if first:
                    first = False
                    continue
                alts.append([])
            elif k[0] == "sequence_operator":
                pass
            elif k[0] == "term":
                alts[-1].append(self._term(k, text))
            else:
                raise common.HarnessError(f"unexpected pair in expression: {k[0]}")
            first = False
        seqs = [a[0] if len(a) == 1 else ("seq", tuple(a)) for a in alts]
        return seqs[0] if len(seqs) == 1 else ("alt", tuple(seqs))

    def _term(self, p, text):
        tag = None
        prefixes = []
        node = None
        post = []
        kids = list(p[3])
        i = 0
        while i < len(kids):
            k = kids[i]
            nm = k[0]
            if nm == "tag_id":
                tag = text[k[1] + 1:k[2]]
                i += 2  # tag_id, assignment_operator
                continue
            if nm == "positive_predicate_operator":
                prefixes.append("and")
            elif nm == "negative_predicate_operator":
                prefixes.append("not")
            elif nm == "opening_paren":
                node = ("grp", self._expr(kids[i + 1], text))
                i += 3
                continue
            elif nm in ("optional_operator", "repeat_operator", "repeat_once_operator", "repeat_exact", "repeat_min", "repeat_max", "repeat_min_max"):
                post.append(k)
            else:
                node = self._terminal(k, text)
            i += 1
        for k in post:
            nm = k[0]
            nums = [int(text[c[1]:c[2]]) for c in k[3] if c[0] == "number"]
            if nm == "optional_operator":
                node = ("opt", node)
            elif nm == "repeat_operator":
                node = ("star", node)
            elif nm == "repeat_once_operator":
                node = ("plus", node)
            elif nm == "repeat_exact":
                node = ("exact", node, nums[0])
            elif nm == "repeat_min":
                node = ("min", node, nums[0])
            elif nm == "repeat_max":
                node = ("max", node, nums[0])
            elif nm == "repeat_min_max":
                node = ("minmax", node, nums[0], nums[1])
        for pfx in reversed(prefixes):
            node = (pfx, node)
        if tag is not None:
            node = ("tag", tag, node)
        return node

    def _terminal(self, k, text):
        nm = k[0]
        if nm == "_push_literal":
            s = [c for c in k[3] if c[0] == "string"][0]
            return ("pushlit", _decode_string(s, text))
        if nm == "_push":
            e = [c for c in k[3] if c[0] == "expression"][0]
            return ("push", self._expr(e, text))
        if nm == "peek_slice":
            a = b = None
            seen_op = False
            for c in k[3]:
                if c[0] == "range_operator":
                    seen_op = True
                elif c[0] == "integer":
                    v = int(text[c[1]:c[2]])
                    if seen_op:
                        b = v
                    else:
                        a = v
            return ("slice", a, b)
        if nm == "identifier":
            name = text[k[1]:k[2]]
            kw = {"PEEK": ("peek",), "POP": ("pop",), "DROP": ("drop",), "PEEK_ALL": ("peekall",), "POP_ALL": ("popall",)}
            return kw.get(name, ("ref", name))
        if nm == "string":
            return ("str", _decode_string(k, text))
        if nm == "insensitive_string":
            s = [c for c in k[3] if c[0] == "string"][0]
            return ("ci", _decode_string(s, text))
        if nm == "range":
            cs = [c for c in k[3] if c[0] == "character"]
            return ("range", _decode_char(cs[0], text), _decode_char(cs[1], text))
        raise common.HarnessError(f"unexpected terminal pair {nm}")


def _inner_doc(p, text):
    for c in p[3]:
        if c[0] == "inner_doc":
            return text[c[1]:c[2]]
    return ""


def _decode(raw: str):
    out = []
    i = 0
    simple = {'"': '"', "\\": "\\", "r": "\r", "n": "\n", "t": "\t", "0": "\0", "'": "'"}
    while i < len(raw):
        c = raw[i]
        if c != "\\":
            out.append(c)
            i += 1
            continue
        d = raw[i + 1]
        if d in simple:
            out.append(simple[d])
            i += 2
        elif d == "x":
            out.append(chr(int(raw[i + 2:i + 4], 16)))
            i += 4
        elif d == "u":
            j = raw.index("}", i)
            v = int(raw[i + 3:j], 16)
            if v > 0x10FFFF:
                return ("BADCP",)
            out.append(chr(v))
            i = j + 1
        else:
            raise common.HarnessError(f"bad escape in accepted literal {raw!r}")
    return "".join(out)


def _decode_string(p, text):
    for c in p[3]:
        if c[0] == "inner_str":
            return _decode(text[c[1]:c[2]])
    return ""


def _decode_char(p, text):
    for c in p[3]:
        if c[0] == "inner_chr":
            return _decode(text[c[1]:c[2]])
    raise common.HarnessError("character without inner_chr")


def normalize(e):
    """Structure modulo associativity of ~ and | and modulo Group nodes."""
    k = e[0]
    if k == "grp":
        return normalize(e[1])
    if k in ("seq", "alt"):
        flat = []
        for c in e[1]:
            c = normalize(c)
            if c[0] == k:
                flat.extend(c[1])
            else:
                flat.append(c)
        return (k, tuple(flat)) if len(flat) > 1 else flat[0]
    if k in ("opt", "star", "plus", "and", "not", "push"):
        return (k, normalize(e[1]))
    if k in ("exact", "min", "max", "minmax"):
        return (k, normalize(e[1])) + tuple(e[2:])
    if k == "tag":
        return ("tag", e[1], normalize(e[2]))
    return e


_ORACLE = None


def oracle() -> MetaOracle:
    global _ORACLE
    if _ORACLE is None:
        _ORACLE = MetaOracle()
    return _ORACLE
