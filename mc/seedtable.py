"""Regenerate section 11 of DESIGN.md (seeded changes and what catches them) from seeded/*/meta.json."""

from __future__ import annotations

import glob
import json
import os

from . import common

BEGIN = "<!-- BEGIN SEED TABLE -->"
END = "<!-- END SEED TABLE -->"


def table() -> str:
    rows = []
    for f in sorted(glob.glob(os.path.join(common.VERIF, "seeded", "*", "meta.json"))):
        m = json.load(open(f))
        rows.append(m)
    out = ["| seed | property | needs, in order to manifest | caught by (quick tier) | at first run? | what was strengthened |", "|---|---|---|---|---|---|"]
    for m in rows:
        out.append("| `%s` | %s | %s | %s | %s | %s |" % (
            m["id"], m["property"], m.get("needs_to_manifest", "").replace("|", "\\|"), ", ".join(m.get("detected_by", [])) or "-",
            "no" if m.get("initially_missed") else "yes", ((m.get("strengthening") or "") + ((" " if m.get("strengthening") else "") + "[" + m["note"] + "]" if m.get("note") and not m.get("detected_by") else "")).replace("|", "\\|")))
    n = len(rows)
    missed = sum(1 for m in rows if m.get("initially_missed"))
    caught = sum(1 for m in rows if m.get("detected_by"))
    based = sum(1 for m in rows if not m.get("verified", {}).get("patch_applies_to_repo_head", True))
    undetected = [m["id"] for m in rows if not m.get("detected_by")]
    head = (f"{n} seeded changes, each verified by me in a scratch worktree (the patch applies, the 678 tests still pass with it, "
            f"the seed's own demonstration fails with it and passes without it). {based} of them were written against code that a later `fix:` commit replaced; "
            f"they are kept as written and run on the commit before that fix (`seedtest --base`, recorded in their `meta.json`), or were rebased by hand where the change carries over. "
            f"{caught} are caught by a quick-tier check on every run; {n - missed} were caught by the checks as they stood when the seed arrived, "
            f"{missed - len(undetected)} only after the strengthening named in the last column"
            + (f"; not detected: {', '.join(undetected)} (see its note: by its author's own assessment it does not break the statement)" if undetected else "") + ".\n")
    return head + "\n" + "\n".join(out) + "\n"


def fix_list() -> str:
    import subprocess

    out = subprocess.run(["git", "-C", common.REPO, "log", "--oneline", "--reverse"], capture_output=True, text=True).stdout.strip().split("\n")
    fixes = [l for l in out if " fix:" in l]
    return f"{len(fixes)} commits:\n\n" + "\n".join("* `%s` %s" % (l.split()[0], " ".join(l.split()[1:])) for l in fixes) + "\n"


STATIC = {
    "C01": ("engine, 4 modes", "interpreter == generated (+ compiles, byte-identical)", "exploration"),
    "C02": ("engine, 278 optimizer configurations, child per configuration", "== optimizer=None (interpreted and generated)", "exploration"),
    "C03": ("engine, IU", "refpeg", "model_checking"),
    "C04": ("engine, 4 modes", "refpeg", "model_checking"),
    "C05": ("engine 4 modes + bfs (Stack, ParserState)", "refpeg, no exception; full-copy model", "model_checking"),
    "C06": ("engine 4 modes, every start position, + bundled grammars", "tree / API invariants incl. compact dumps (content)", "exploration"),
    "C07": ("engine 4 modes, each call twice on the same text object", "Pairs or PestParsingError, repeatable, watchdog", "exploration"),
    "C08": ("rewrite sites x kinds (+ combinations) x corpus, bundled + 2 synthetic grammars", "== unrewritten grammar", "exploration"),
    "C09": ("bfs (Stack, SnapshottingInt, ParserState with atomic blocks)", "full-copy model", "model_checking"),
    "C10": ("text enumeration (+ reload history)", "meta.pest under refpeg (+ structure)", "model_checking"),
    "C11": ("text fault enumeration (forked children for pumped / huge texts)", "Parser or renderable PestGrammarError", "fault_enumeration"),
    "C12": ("full code space x expressions x 4 modes; windows for adjacency / case-folding history; escapes", "integer comparisons; cross-mode for Unicode rules", "exploration"),
    "C13": ("engine 4 modes, rejected cases, every start position", "position / labels / rendering invariants (either line convention)", "exploration"),
    "C14": ("text x offset x span; query orders; two-text histories", "newline arithmetic", "exploration"),
    "C15": ("forked histories (4 pools) + sched + two-state bfs + free-running", "isolated / sequential / full-copy reference", "model_checking"),
    "C16": ("engine 4 modes x every k", "suffix parse shifted", "exploration"),
    "C17": ("document / expression enumeration, second parse of the same text", "json.loads; reference evaluator", "exploration"),
    "C18": ("table x stream enumeration, one parser instance per table", "binding-power transcription + brute force", "model_checking"),
}
THOROUGH_MEASURED = {
    # last measured runs of the thorough tier (commit, what, wall); sizes have grown since for most (see text)
    "C01": "273M evaluations / 82 min on 10 cores, other work running (18866c1)", "C02": "244M / 47 min on 10 cores, other work running (18866c1)", "C03": "196M / 26 min on 10 cores (e86f708)", "C04": "139M / 19 min on 10 cores (18866c1)",
    "C05": "52M / 4.4 min on 10 cores (e86f708)", "C06": "not re-measured (about 20-40 min)", "C07": "241M evaluations / 34 min on 16 cores (final commit)", "C08": "all inputs, 4 modes everywhere / 14 min (b506832, before combinations)",
    "C09": "depth 14/14/11 / 12 min (b506832, before atomic blocks)", "C10": "1.95M texts / 69 s (e86f708)", "C11": "N=4, K=4, replacements+insertions / 16 min (b506832)", "C12": "~160 expressions + all property rules / 20 min (b506832)",
    "C13": "started on the final commit, stopped unfinished after 47 min when the session ended (no violation reported up to then)", "C14": "5.3M / 10 s (e86f708)", "C15": "history depth 4, 2 preemptions on the tiny harness / 8 min (b506832, one pool)", "C16": "not re-measured (about 20-40 min)",
    "C17": "larger subsets, 7 tokens / 7.8 min on 10 cores (e86f708)", "C18": "37.6M streams, 8 tokens / 26 min on 10 cores (e86f708)",
}


def bounds_table() -> str:
    out = ["| id | explorer | oracle | quick tier: executions judged, wall on 16 cores (committed evidence) | thorough tier (last measured) | level |", "|---|---|---|---|---|---|"]
    total = 0.0
    for pid in sorted(STATIC):
        f = os.path.join(common.VERIF, "evidence", f"{pid}.json")
        ev = json.load(open(f)) if os.path.exists(f) else {}
        cov = ev.get("coverage", {})
        n = cov.get("evaluations") or cov.get("states") or 0
        wall = ev.get("wall_s", 0)
        total += wall
        ex, orc, lvl = STATIC[pid]
        out.append(f"| {pid} | {ex} | {orc} | {n:,} in {wall:.0f} s | {THOROUGH_MEASURED[pid]} | {lvl} |")
    out.append(f"\nAll 18 quick tiers together: {total / 60:.0f} minutes (measured one after the other on an otherwise idle 16-core sandbox).")
    return "\n".join(out) + "\n"


def main() -> int:
    p = os.path.join(common.VERIF, "DESIGN.md")
    s = open(p).read()
    fb, fe = "<!-- BEGIN FIX LIST -->", "<!-- END FIX LIST -->"
    if fb in s:
        a = s.index(fb) + len(fb)
        b = s.index(fe)
        s = s[:a] + "\n" + fix_list() + s[b:]
    bb, be = "<!-- BEGIN BOUNDS TABLE -->", "<!-- END BOUNDS TABLE -->"
    if bb in s:
        a = s.index(bb) + len(bb)
        b = s.index(be)
        s = s[:a] + "\n" + bounds_table() + s[b:]
    if BEGIN not in s:
        raise SystemExit("markers not found in DESIGN.md")
    a = s.index(BEGIN) + len(BEGIN)
    b = s.index(END)
    s = s[:a] + "\n" + table() + s[b:]
    open(p, "w").write(s)
    print("section 11 regenerated")
    return 0


if __name__ == "__main__":
    raise SystemExit(main())
