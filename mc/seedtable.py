"""Regenerate section 11 of DESIGN.md (seeded changes and what catches them) from seeded/*/meta.json."""

from __future__ import annotations

import glob
import json
import os

from . import common

BEGIN = "<!-- BEGIN SEED TABLE -->"
END = "<!-- END SEED TABLE -->"


def table() -> str:
    rows = []
    for f in sorted(glob.glob(os.path.join(common.VERIF, "seeded", "*", "meta.json"))):
        m = json.load(open(f))
        rows.append(m)
    out = ["| seed | property | needs, in order to manifest | caught by (quick tier) | at first run? | what was strengthened |", "|---|---|---|---|---|---|"]
    for m in rows:
        out.append("| `%s` | %s | %s | %s | %s | %s |" % (
            m["id"], m["property"], m.get("needs_to_manifest", "").replace("|", "\\|"), ", ".join(m.get("detected_by", [])) or "-",
            "no" if m.get("initially_missed") else "yes", (m.get("strengthening") or "").replace("|", "\\|")))
    n = len(rows)
    missed = sum(1 for m in rows if m.get("initially_missed"))
    caught = sum(1 for m in rows if m.get("detected_by"))
    head = (f"{n} seeded changes, each verified by me in a scratch worktree (patch applies to /repo's HEAD, the 678 tests still pass with it, "
            f"the seed's own demonstration fails with it and passes without it). {caught} are caught by a quick-tier check on every run; "
            f"{n - missed} were caught by the checks as they stood when the seed arrived, {missed} only after the strengthening named in the last column.\n")
    return head + "\n" + "\n".join(out) + "\n"


def fix_list() -> str:
    import subprocess

    out = subprocess.run(["git", "-C", common.REPO, "log", "--oneline", "--reverse"], capture_output=True, text=True).stdout.strip().split("\n")
    fixes = [l for l in out if " fix:" in l]
    return f"{len(fixes)} commits:\n\n" + "\n".join("* `%s` %s" % (l.split()[0], " ".join(l.split()[1:])) for l in fixes) + "\n"


def main() -> int:
    p = os.path.join(common.VERIF, "DESIGN.md")
    s = open(p).read()
    fb, fe = "<!-- BEGIN FIX LIST -->", "<!-- END FIX LIST -->"
    if fb in s:
        a = s.index(fb) + len(fb)
        b = s.index(fe)
        s = s[:a] + "\n" + fix_list() + s[b:]
    if BEGIN not in s:
        raise SystemExit("markers not found in DESIGN.md")
    a = s.index(BEGIN) + len(BEGIN)
    b = s.index(END)
    s = s[:a] + "\n" + table() + s[b:]
    open(p, "w").write(s)
    print("section 11 regenerated")
    return 0


if __name__ == "__main__":
    raise SystemExit(main())
