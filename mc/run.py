"""Entry point: python -m mc.run <property id> [--tier quick|thorough]."""

from __future__ import annotations

import argparse
import importlib
import os
import sys
import traceback

from . import common


def main(argv=None) -> int:
    ap = argparse.ArgumentParser()
    ap.add_argument("prop")
    ap.add_argument("--tier", choices=["quick", "thorough"], default=None)
    args = ap.parse_args(argv)
    tier = args.tier or os.environ.get("VERIF_TIER") or "quick"
    if tier not in ("quick", "thorough"):
        tier = "quick"
    prop = args.prop.upper()
    try:
        common.bind_repo()
        mod = importlib.import_module(f"mc.checks.{prop.lower()}")
        return mod.run(tier)
    except common.HarnessError as exc:
        print(f"HARNESS-ERROR property={prop} {exc}")
        return 2
    except Exception:  # noqa: BLE001
        print(f"HARNESS-ERROR property={prop} unexpected exception in harness")
        traceback.print_exc()
        return 2


if __name__ == "__main__":
    sys.exit(main())
