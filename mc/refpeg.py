"""Executable reference semantics of pest (the model).  Imports nothing from `pest`.

Big-step evaluator over persistent values: ev(e, pos, stack, atomicity, lookahead) ->
FAIL | (pos', stack', pairs).  Nothing is mutated, so backtracking is correct by construction.
See DESIGN.md section 2.2 for the semantics table and for the UNSPEC points.
"""

from __future__ import annotations

NON, ATOM, COMP = 0, 1, 2
FAIL = None


class Unspec(Exception):
    """Neither the property text nor pest determines the outcome."""


ASCII_SETS = {
    "ASCII_DIGIT": lambda c: "0" <= c <= "9",
    "ASCII_NONZERO_DIGIT": lambda c: "1" <= c <= "9",
    "ASCII_BIN_DIGIT": lambda c: c in "01",
    "ASCII_OCT_DIGIT": lambda c: "0" <= c <= "7",
    "ASCII_HEX_DIGIT": lambda c: "0" <= c <= "9" or "a" <= c <= "f" or "A" <= c <= "F",
    "ASCII_ALPHA_LOWER": lambda c: "a" <= c <= "z",
    "ASCII_ALPHA_UPPER": lambda c: "A" <= c <= "Z",
    "ASCII_ALPHA": lambda c: "a" <= c <= "z" or "A" <= c <= "Z",
    "ASCII_ALPHANUMERIC": lambda c: "0" <= c <= "9" or "a" <= c <= "z" or "A" <= c <= "Z",
    "ASCII": lambda c: c <= "\x7f",
}


def _ascii_lower(s: str) -> str:
    return "".join(chr(ord(c) + 32) if "A" <= c <= "Z" else c for c in s)


class Stats:
    __slots__ = ("backtracks", "stack_undone", "pairs_discarded", "trivia", "rule_calls")

    def __init__(self):
        self.backtracks = 0
        self.stack_undone = 0
        self.pairs_discarded = 0
        self.trivia = 0
        self.rule_calls = 0


class Grammar:
    def __init__(self, rules, unicode_props=None):
        """rules: iterable of (name, modifier, body)."""
        self.rules = {}
        for name, mod, body in rules:
            self.rules[name] = (mod, body)  # later definitions win, like a dict
        self.has_ws = "WHITESPACE" in self.rules
        self.has_cm = "COMMENT" in self.rules
        self.unicode_props = unicode_props or {}


def parse(g: Grammar, start: str, text: str, start_pos: int = 0, stats: Stats | None = None):
    """Return FAIL or a tuple of pairs (name, start, end, children)."""
    rules = g.rules
    has_ws, has_cm = g.has_ws, g.has_cm
    n = len(text)
    st = stats or Stats()

    def skip(pos, stack, at, look):
        if at != NON or not (has_ws or has_cm):
            return pos, stack, ()
        out = ()
        while True:
            if has_ws:
                r = call("WHITESPACE", pos, stack, at, look)
                if r is not FAIL:
                    if r[0] == pos:
                        raise Unspec("trivia rule matched empty")
                    pos, stack, out = r[0], r[1], out + r[2]
                    st.trivia += 1
                    continue
            if has_cm:
                r = call("COMMENT", pos, stack, at, look)
                if r is not FAIL:
                    if r[0] == pos:
                        raise Unspec("trivia rule matched empty")
                    pos, stack, out = r[0], r[1], out + r[2]
                    st.trivia += 1
                    continue
            break
        return pos, stack, out

    def builtin(name, pos, stack, at, look):
        if name == "ANY":
            return (pos + 1, stack, ()) if pos < n else FAIL
        if name == "SOI":
            return (pos, stack, ()) if pos == 0 else FAIL
        if name == "EOI":
            if pos != n:
                return FAIL
            if at != ATOM and not look:
                return pos, stack, (("EOI", pos, pos, ()),)
            return pos, stack, ()
        if name == "NEWLINE":
            if text.startswith("\r\n", pos):
                return pos + 2, stack, ()
            if pos < n and text[pos] in "\n\r":
                return pos + 1, stack, ()
            return FAIL
        f = ASCII_SETS.get(name)
        if f is not None:
            return (pos + 1, stack, ()) if pos < n and f(text[pos]) else FAIL
        p = g.unicode_props.get(name)
        if p is not None:
            return (pos + 1, stack, ()) if pos < n and p(text[pos]) else FAIL
        raise Unspec(f"undefined rule {name}")

    def call(name, pos, stack, at, look):
        rule = rules.get(name)
        if rule is None:
            return builtin(name, pos, stack, at, look)
        st.rule_calls += 1
        mod, body = rule
        inner = at
        if mod == "_":
            vis = False
        elif mod == "":
            vis = at != ATOM
        elif mod == "@":
            vis = at != ATOM
            inner = ATOM
        elif mod == "$":
            vis = True
            inner = COMP
        elif mod == "!":
            vis = True
            inner = NON
        else:
            raise ValueError(mod)
        if name == "WHITESPACE" or name == "COMMENT":
            inner = ATOM
        r = ev(body, pos, stack, inner, look)
        if r is FAIL:
            return FAIL
        if vis and not look:
            return r[0], r[1], ((name, pos, r[0], r[2]),)
        return r

    def seqn(items, pos, stack, at, look):
        out = ()
        last = len(items) - 1
        for i, x in enumerate(items):
            r = ev(x, pos, stack, at, look)
            if r is FAIL:
                if i > 0:
                    st.backtracks += 1
                return FAIL
            pos, stack, out = r[0], r[1], out + r[2]
            if i < last:
                pos, stack, t = skip(pos, stack, at, look)
                out += t
        return pos, stack, out

    def star(e, pos, stack, at, look):
        out = ()
        r = ev(e, pos, stack, at, look)
        if r is FAIL:
            return pos, stack, out
        if r[0] == pos and r[1] == stack:
            raise Unspec("repetition operand matched empty")
        pos, stack, out = r[0], r[1], r[2]
        while True:
            p2, s2, t = skip(pos, stack, at, look)
            r = ev(e, p2, s2, at, look)
            if r is FAIL:
                if p2 != pos:
                    st.backtracks += 1
                return pos, stack, out
            if r[0] == p2 and r[1] == s2:
                raise Unspec("repetition operand matched empty")
            pos, stack, out = r[0], r[1], out + t + r[2]

    def match_entries(entries, pos):
        for s in entries:
            if not text.startswith(s, pos):
                return -1
            pos += len(s)
        return pos

    def ev(e, pos, stack, at, look):
        k = e[0]
        if k == "str":
            s = e[1]
            return (pos + len(s), stack, ()) if text.startswith(s, pos) else FAIL
        if k == "ref":
            return call(e[1], pos, stack, at, look)
        if k == "seq":
            return seqn(e[1], pos, stack, at, look)
        if k == "alt":
            for i, x in enumerate(e[1]):
                r = ev(x, pos, stack, at, look)
                if r is not FAIL:
                    return r
            return FAIL
        if k in ("grp", "bare"):
            return ev(e[1], pos, stack, at, look)
        if k == "tag":
            return ev(e[2], pos, stack, at, look)
        if k == "opt":
            r = ev(e[1], pos, stack, at, look)
            return (pos, stack, ()) if r is FAIL else r
        if k == "star":
            return star(e[1], pos, stack, at, look)
        if k == "plus":
            return seqn((e[1], ("star", e[1])), pos, stack, at, look)
        if k == "exact":
            if e[2] < 1:
                raise Unspec("{0}")
            return seqn((e[1],) * e[2], pos, stack, at, look)
        if k == "min":
            return seqn((e[1],) * e[2] + (("star", e[1]),), pos, stack, at, look)
        if k == "max":
            if e[2] < 1:
                raise Unspec("{,0}")
            return seqn((("opt", e[1]),) * e[2], pos, stack, at, look)
        if k == "minmax":
            if e[2] > e[3] or e[3] < 1:
                raise Unspec("{m,n} with m>n")
            return seqn((e[1],) * e[2] + (("opt", e[1]),) * (e[3] - e[2]), pos, stack, at, look)
        if k == "ci":
            s = e[1]
            seg = text[pos:pos + len(s)]
            return (pos + len(s), stack, ()) if len(seg) == len(s) and _ascii_lower(seg) == _ascii_lower(s) else FAIL
        if k == "range":
            return (pos + 1, stack, ()) if pos < n and e[1] <= text[pos] <= e[2] else FAIL
        if k == "and":
            r = ev(e[1], pos, stack, at, True)
            if r is not FAIL and (r[1] != stack):
                st.stack_undone += 1
            return FAIL if r is FAIL else (pos, stack, ())
        if k == "not":
            r = ev(e[1], pos, stack, at, True)
            if r is not FAIL and (r[1] != stack):
                st.stack_undone += 1
            return (pos, stack, ()) if r is FAIL else FAIL
        if k == "push":
            r = ev(e[1], pos, stack, at, look)
            if r is FAIL:
                return FAIL
            return r[0], r[1] + (text[pos:r[0]],), r[2]
        if k == "pushlit":
            return pos, stack + (e[1],), ()
        if k == "peek":
            if not stack:
                raise Unspec("PEEK on empty stack")
            p = match_entries(stack[-1:], pos)
            return FAIL if p < 0 else (p, stack, ())
        if k == "pop":
            if not stack:
                raise Unspec("POP on empty stack")
            p = match_entries(stack[-1:], pos)
            return FAIL if p < 0 else (p, stack[:-1], ())
        if k == "drop":
            return FAIL if not stack else (pos, stack[:-1], ())
        if k == "peekall":
            p = match_entries(stack[::-1], pos)
            return FAIL if p < 0 else (p, stack, ())
        if k == "popall":
            p = match_entries(stack[::-1], pos)
            return FAIL if p < 0 else (p, (), ())
        if k == "slice":
            a, b = e[1], e[2]
            ln = len(stack)
            lo = 0 if a is None else (a if a >= 0 else ln + a)
            hi = ln if b is None else (b if b >= 0 else ln + b)
            if lo < 0 or hi < 0 or lo > ln or hi > ln or lo > hi:
                raise Unspec("PEEK slice out of range")
            p = match_entries(stack[lo:hi], pos)
            return FAIL if p < 0 else (p, stack, ())
        raise ValueError(e)

    r = call(start, start_pos, (), NON, False)
    return FAIL if r is FAIL else r[2]


def observe(g: Grammar, start: str, text: str, start_pos: int = 0, stats: Stats | None = None):
    """('ok', tree) | ('fail',) | ('unspec', why) in the same shape modes.observe uses (without tags)."""
    try:
        r = parse(g, start, text, start_pos, stats)
    except Unspec as exc:
        return ("unspec", str(exc))
    except RecursionError:
        return ("unspec", "recursion")
    if r is FAIL:
        return ("fail",)
    return ("ok", r)
