"""C06: every returned parse tree is well-formed (Pairs / Pair public API invariants, 4 modes)."""

from __future__ import annotations

import json
import re

from .. import engine, families, gast, modes
from . import _grammar_check as gc


def tree_invariants(pairs, text, k, nonsilent, tags, start_rule_nonsilent, start_rule):
    """Return a list of violated invariant names for one successful parse."""
    from pest.pairs import End, Start

    bad = []
    n = len(text)

    def walk(p, lo, hi, depth):
        if not (k <= p.start <= p.end <= n):
            bad.append("span-bounds")
        if not (lo <= p.start and p.end <= hi):
            bad.append("child-outside-parent")
        s = text[p.start:p.end]
        if not (p.text == s == str(p) == p.as_str() == p.span().as_str() == str(p.span())):
            bad.append("text")
        sp = p.span()
        if (sp.start, sp.end) != (p.start, p.end):
            bad.append("span()")
        if p.name not in nonsilent and p.name != "EOI":
            bad.append("name-not-a-nonsilent-rule")
        if p.tag is not None and p.tag not in tags:
            bad.append("tag-not-in-grammar")
        prev_end = p.start
        for c in p.children:
            if c.start < prev_end:
                bad.append("children-overlap-or-out-of-order")
            prev_end = c.end
            walk(c, p.start, p.end, depth + 1)
        if list(p) != list(p.children) or list(p.inner()) != list(p.children):
            bad.append("inner()")
        if p.inner_texts != [str(c) for c in p.children]:
            bad.append("inner_texts")

    prev = k
    for p in pairs:
        if p.start < prev:
            bad.append("roots-overlap-or-out-of-order")
        prev = p.end
        walk(p, k, n, 0)
    # tokens(): balanced, non-decreasing, matching names
    stack = []
    last = k
    toks = list(pairs.tokens())
    for t in toks:
        if t.pos < last:
            bad.append("tokens-positions-decrease")
        last = t.pos
        if isinstance(t, Start):
            stack.append(t.rule.name)
        elif isinstance(t, End):
            if not stack or stack.pop() != t.rule.name:
                bad.append("tokens-unbalanced")
        else:
            bad.append("tokens-unknown-kind")
    if stack:
        bad.append("tokens-unbalanced")
    # flatten() is the pre-order and the Start-token order
    flat = list(pairs.flatten())
    pre = []

    def preorder(p):
        pre.append(p)
        for c in p.children:
            preorder(c)
    for p in pairs:
        preorder(p)
    if [id(x) for x in flat] != [id(x) for x in pre]:
        bad.append("flatten-not-preorder")
    if [(x.name, x.start) for x in flat] != [(t.rule.name, t.pos) for t in toks if isinstance(t, Start)]:
        bad.append("flatten-vs-start-tokens")
    if len(toks) != 2 * len(flat):
        bad.append("tokens-count")
    if start_rule_nonsilent:
        if len(pairs) != 1 or pairs[0].start != k or pairs[0].name != start_rule:
            bad.append("start-rule-root")
        elif pairs.first() is not pairs[0]:
            bad.append("first()")
    # dump / dumps
    try:
        d = pairs.dump()
        pretty = pairs.dumps(compact=False)
        compact = pairs.dumps()
        if json.loads(pretty) != d:
            bad.append("dumps(compact=False)-vs-dump")

        def check_dump(dd, p):
            if dd["rule"] != p.name or dd["span"] != {"str": text[p.start:p.end], "start": p.start, "end": p.end}:
                return False
            if ("node_tag" in dd) != (p.tag is not None) or (p.tag is not None and dd["node_tag"] != p.tag):
                return False
            return len(dd["inner"]) == len(p.children) and all(check_dump(x, c) for x, c in zip(dd["inner"], p.children))
        if len(d) != len(pairs) or not all(check_dump(x, p) for x, p in zip(d, pairs)):
            bad.append("dump-vs-tree")
        # compact form: every pair shows up once, in pre-order, as "[tag ]name" - tags included - and leaves carry
        # json.dumps(text).  (Only the content is compared, not indentation or separators: the property asks that
        # dump() and dumps() agree with each other, not for one particular layout.)
        shown = re.findall(r"(?:^|- |> )(?:([A-Za-z_][A-Za-z_0-9]*) )?([A-Za-z_][A-Za-z_0-9]*)(?=$|\n| > |: )", compact, flags=re.M)
        if [(t or None, n) for t, n in shown] != [(x.tag or None, x.name) for x in flat]:
            bad.append("dumps-compact-names-or-tags")
        for x in flat:
            if not x.children and f"{x.name}: {json.dumps(x.text)}" not in compact:
                bad.append("dumps-compact-leaf")
                break
    except Exception as exc:  # noqa: BLE001
        bad.append(f"dump-raises:{type(exc).__name__}")
    # stream()
    try:
        st = pairs.stream()
        seen = []
        while (x := st.next()) is not None:
            seen.append(x)
        if [id(x) for x in seen] != [id(x) for x in pairs]:
            bad.append("stream()")
    except Exception as exc:  # noqa: BLE001
        bad.append(f"stream-raises:{type(exc).__name__}")
    return sorted(set(bad))


class C06(engine.Check):
    prop = "C06"
    modes = modes.MODES
    need_model = False

    def observe(self, parser, mode, spec, rule, text, k):
        from pest import PestParsingError

        try:
            pairs = parser.parse(rule, text, start_pos=k)
        except PestParsingError:
            return ("fail", 0)
        except Exception as exc:  # noqa: BLE001
            return ("exc", type(exc).__name__)
        info = spec_info(spec)
        try:
            bad = tree_invariants(pairs, text, k, info["nonsilent"], info["tags"], info["mods"].get(rule, "") != "_", rule)
        except Exception as exc:  # noqa: BLE001
            bad = [f"api-raises:{type(exc).__name__}"]
        return ("ok", modes.tree_of(pairs), tuple(bad))

    def judge(self, spec, tab, model_obs, out):
        for mode in self.modes:
            t = tab.get(mode)
            if t is None:
                continue
            for key, obs in t.items():
                if obs[0] == "ok" and obs[2]:
                    self.fail(out, spec, "invariant:" + obs[2][0], mode, *key, "well-formed tree", {"violated": list(obs[2]), "tree": gc.show(obs[:2])})


def spec_info(spec):
    _INFO = spec.cache
    key = "info"
    if key not in _INFO:
        if spec.raw:
            from .. import metaref

            d = metaref.oracle().denote(spec.text)
            rules = [(n, m, b) for n, m, b, _ in d[0]]
        else:
            rules = spec.rules
        tags = set()

        def collect(e):
            if e[0] == "tag":
                tags.add(e[1])
            for c in gast.children(e):
                collect(c)
        for _, _, b in rules:
            collect(b)
        _INFO[key] = {"nonsilent": {n for n, m, _ in rules if m != "_"}, "tags": tags, "mods": {n: m for n, m, _ in rules}}
    return _INFO[key]


def bundled_specs():
    """The bundled real-world grammars on their example inputs (raw grammar text)."""
    import os

    from .. import common

    out = []
    table = [
        ("tests/grammars/json.pest", "json", ["tests/examples/example.json"]),
        ("tests/grammars/toml.pest", "toml", ["tests/examples/example.toml"]),
        ("tests/grammars/http.pest", "http", ["tests/examples/example.http"]),
        ("examples/json/json.pest", "json", ["examples/json/example.json"]),
        ("examples/ini/ini.pest", "file", ["examples/ini/example.ini"]),
        ("examples/csv/csv.pest", "file", ["examples/csv/example.csv"]),
    ]
    for gpath, start, files in table:
        gp = os.path.join(common.REPO, gpath)
        ins = []
        for f in files:
            fp = os.path.join(common.REPO, f)
            if os.path.exists(fp):
                ins.append(open(fp, encoding="utf-8").read())
        if not os.path.exists(gp) or not ins:
            continue
        s = engine.Spec((), (start,), ins, "zero", f"bundled({gpath})")
        s._text = open(gp, encoding="utf-8").read()
        s.raw = True
        out.append(s)
    return out


def folding_specs():
    """Case-insensitive literals against inputs whose Unicode case folding is LONGER than the input (ß -> ss, ﬁ -> fi):
    a match computed on folded text must not put a span beyond the end of the input."""
    text = 'kw = { ^"ss" }\nw = { "a"* ~ (^"ss" | ^"fi") }\nf = { (^"fi" | ^"s" | "x")+ }\nq = @{ ^"ss" ~ ANY* }\n'
    s = engine.Spec((), ("kw", "w", "f", "q"), families.inputs("sSa\u00df\ufb01x", 3), "all", "case-folding")
    s._text = text
    s.raw = True
    return [s]


def specs(tier: str):
    sub = families.c01_specs(tier, kmode="all", max_inputs=30 if tier == "quick" else 130, lean=True)
    return sub + bundled_specs() + folding_specs()


def run(tier: str) -> int:
    b = families.c01_bounds(tier, lean=True)
    return gc.run_model_check(
        C06(), specs(tier), tier, "exploration",
        bounds=[{"top": [{"n": n, "modifiers": list(m), "trivia": list(t)} for n, m, t in b["top"]], "contexts": [{"hole_size": h, "trivia": list(t)} for h, t in b["ctx"]], "stack_contexts_also_under": b.get("ctx_stack_under", []),
                 "start_positions": "every k in 0..len(text)", "bundled": "json, toml, http, examples/json, ini, csv on their example files"}],
        rule=families.c01_rule_text() + "; every start position 0..len; plus the bundled grammars on their example files. Oracle (invariants on every successful parse, all four modes): start_pos <= start <= end <= len, "
             "text == input[start:end] == str(pair) == span().as_str(); children in input order, non-overlapping, inside the parent; names are non-silent rules of the grammar or EOI; tags are tags written in the grammar; "
             "tokens() balanced with non-decreasing positions and matching names; flatten() == pre-order == Start-token order; a non-silent start rule gives exactly one root at start_pos; "
             "dump(), dumps(compact=False) (json round trip) and the compact dumps() (rule names in pre-order, json-quoted leaf texts) agree with the tree. Non-trivial: at least one pair returned",
        validate_model=False, still_violates=replay_case,
    )


def replay_case(case: dict) -> bool:
    from pest import PestParsingError

    from .. import metaref

    p = modes.build(case["grammar"], case["mode"])
    d = metaref.oracle().denote(case["grammar"])
    rules = [(n, m, b) for n, m, b, _ in d[0]]
    sp = engine.Spec(rules, (case["rule"],), [case["input"]], "zero", "replay")
    info = spec_info(sp)
    try:
        pairs = p.parse(case["rule"], case["input"], start_pos=case.get("start_pos", 0))
    except PestParsingError:
        print("  parse fails now")
        return False
    bad = tree_invariants(pairs, case["input"], case.get("start_pos", 0), info["nonsilent"], info["tags"], info["mods"].get(case["rule"], "") != "_", case["rule"])
    print("  violated:", bad)
    return bool(bad)
