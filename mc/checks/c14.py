"""C14: Position / Span / line-column utilities agree with the text.

Exhaustive enumeration of every text over a small alphabet containing "\\n" up to a length
bound x every offset x every span, judged by direct integer arithmetic on the text.
"""

from __future__ import annotations

import itertools

from .. import common

HISTORY_LEN = {"quick": 5, "thorough": 6}
ORDER_LEN = {"quick": 4, "thorough": 5}
LONG_LEN = {"quick": 3000, "thorough": 20000}
BOUNDS = {
    # (alphabet, max length).  '\r', U+2028, '\x0b', '\x85' are ordinary characters for this property (line breaks are
    # '\n' only), but str.splitlines() treats them as line boundaries - so they must be in some alphabet.
    "quick": [("ab\n", 8), ("a\né", 6), ("a\n\r", 6), ("\n\u2028\x0b\x85", 5)],
    "thorough": [("ab\n", 9), ("a\né ", 7), ("a\n\r", 8), ("a\n\u2028\x0b\x85\x1c", 6)],
}


def ref_line_col(text: str, p: int) -> tuple[int, int]:
    return (1 + text.count("\n", 0, p), p - (text.rfind("\n", 0, p) + 1) + 1)


def ref_lines(text: str) -> list[str]:
    parts = text.split("\n")
    out = [x + "\n" for x in parts[:-1]]
    if parts[-1]:
        out.append(parts[-1])
    return out


def check_text(text: str) -> tuple[list[dict], int, int]:
    """All offsets and spans of one text. Returns (failures, evaluations, nontrivial)."""
    from pest.pairs import Pair, Position, Span
    from pest.state import RuleFrame

    fails: list[dict] = []
    evals = 0
    n = len(text)
    lines = ref_lines(text)
    seen_lc = {}
    frame = RuleFrame("r", 0)

    def bad(kind, **kw):
        fails.append({"kind": kind, "text": text, **kw})

    for p in range(n + 1):
        evals += 1
        want = ref_line_col(text, p)
        try:
            got = Position(text, p).line_col()
        except Exception as exc:  # noqa: BLE001
            bad("exc:line_col", pos=p, got=type(exc).__name__, expected=list(want))
            continue
        if tuple(got) != want:
            bad("line_col", pos=p, got=list(got), expected=list(want))
        elif got in seen_lc:
            bad("not-injective", pos=p, got=list(got), expected=f"offset {seen_lc[got]} has the same line/col")
        seen_lc[tuple(got)] = p
        # line_of: the line containing p (with or without its terminating newline)
        ls = text.rfind("\n", 0, p) + 1
        le = text.find("\n", p)
        le = n if le == -1 else le
        want_line = text[ls:le]
        try:
            got_line = Position(text, p).line_of()
        except Exception as exc:  # noqa: BLE001
            bad("exc:line_of", pos=p, got=type(exc).__name__, expected=want_line)
        else:
            if got_line not in (want_line, want_line + "\n") or (got_line.endswith("\n") and le == n):
                bad("line_of", pos=p, got=got_line, expected=want_line)
        try:
            plc = Pair(text, p, n, frame).line_col()
            if tuple(plc) != want:
                bad("pair.line_col", pos=p, got=list(plc), expected=list(want))
        except Exception as exc:  # noqa: BLE001
            bad("exc:pair.line_col", pos=p, got=type(exc).__name__, expected=list(want))
    for s in range(n + 1):
        for e in range(s, n + 1):
            evals += 1
            try:
                sp = Span(text, s, e)
                a, b = sp.split()
                ok = (
                    str(sp) == text[s:e]
                    and sp.as_str() == text[s:e]
                    and (a.text, a.pos) == (text, s)
                    and (b.text, b.pos) == (text, e)
                    and sp.start_pos() == a
                    and sp.end_pos() == b
                    and tuple(a.line_col()) == ref_line_col(text, s)
                    and tuple(b.line_col()) == ref_line_col(text, e)
                )
                if not ok:
                    bad("span-positions", span=[s, e], got=[str(sp), list(a.line_col()), list(b.line_col())],
                        expected=[text[s:e], list(ref_line_col(text, s)), list(ref_line_col(text, e))])
                want_lines = lines[ref_line_col(text, s)[0] - 1: ref_line_col(text, e)[0]]
                got_lines = sp.lines()
                if list(got_lines) != want_lines:
                    bad("span.lines", span=[s, e], got=list(got_lines), expected=want_lines)
            except Exception as exc:  # noqa: BLE001
                bad("exc:span", span=[s, e], got=type(exc).__name__, expected="no exception")
    return fails, evals, (1 if "\n" in text else 0)


def check_histories(length: int, first_parts):
    """Two texts in a row: query text A, drop it, build a different text B of the same length and query B.  The answers for B
    must be those of B alone - whatever an implementation remembers from A (CPython usually hands B the block A just left,
    so anything keyed by id() sees 'the same' object)."""
    from pest.pairs import Position, Span

    fails, evals, same_addr = [], 0, 0
    parts = [list(t) for t in itertools.product("a\n", repeat=length)]
    for pa in first_parts:
        for pb in parts:
            if pb == pa:
                continue
            for p in range(length + 1):
                for q in range(length + 1):
                    a = "".join(pa)
                    ida = id(a)
                    Position(a, p).line_col()
                    Span(a, p, length).lines()
                    del a
                    b = "".join(pb)
                    same_addr += 1 if id(b) == ida else 0
                    evals += 1
                    want = ref_line_col(b, q)
                    got = tuple(Position(b, q).line_col())
                    if got != want:
                        fails.append({"kind": "line_col-after-other-text", "text": b, "pos": q, "got": list(got), "expected": list(want), "previous_text": "".join(pa), "previous_pos": p})
                        del b
                        continue
                    lines = ref_lines(b)
                    want_lines = lines[want[0] - 1: ref_line_col(b, length)[0]]
                    got_lines = list(Span(b, q, length).lines())
                    again = list(Span(b, q, length).lines())      # the same question twice on the same object
                    if got_lines == want_lines and again != want_lines:
                        got_lines = again
                    if got_lines != want_lines:
                        fails.append({"kind": "span.lines-after-other-text", "text": b, "span": [q, length], "got": got_lines, "expected": want_lines, "previous_text": "".join(pa), "previous_pos": p})
                    del b
    return fails[:20], evals, same_addr


def check_orders(length: int, first_parts):
    """One text object queried at three offsets in every order (late, early, late again ...): each answer must be that of the offset alone,
    whatever an implementation indexed or remembered from the earlier queries on the same object."""
    from pest.pairs import Pair, Position, Span
    from pest.state import RuleFrame

    frame = RuleFrame("r", 0)
    fails, evals = [], 0
    parts = [list(t) for t in itertools.product("a\n\u00e9", repeat=length)]
    for pa in (parts if first_parts is None else first_parts):
        for p1 in range(length + 1):
            for p2 in range(length + 1):
                for p3 in range(length + 1):
                    t = "".join(pa)          # a fresh object for every order
                    evals += 1
                    got = []
                    got.append(tuple(Position(t, p1).line_col()))
                    got.append(tuple(Pair(t, p2, length, frame).line_col()))
                    got.append(tuple(Position(t, p3).line_col()))
                    lines_got = list(Span(t, p1, length).lines())
                    lines_again = list(Span(t, p1, length).lines())
                    if lines_again != lines_got:
                        lines_got = lines_again
                    want = [ref_line_col(t, p1), ref_line_col(t, p2), ref_line_col(t, p3)]
                    if got != want:
                        fails.append({"kind": "line_col-depends-on-earlier-queries", "text": t, "offsets_in_order": [p1, p2, p3], "got": [list(g) for g in got], "expected": [list(w) for w in want]})
                    else:
                        lw = ref_lines(t)[ref_line_col(t, p1)[0] - 1: ref_line_col(t, length)[0]]
                        if lines_got != lw:
                            fails.append({"kind": "span.lines-depends-on-earlier-queries", "text": t, "offsets_in_order": [p1, p2, p3], "got": lines_got, "expected": lw})
    return fails[:20], evals


LONG_PATTERNS = ("ab cd\n", "a", "\n", "a\n\nbc", "\u00e9x\n", "ab\r\ncd ")


def check_long(pattern: str, n: int):
    """One long text (the property's 'long texts' clause): every offset for line_col / line_of, a grid of spans for lines(), and the pairs of a
    real parse with thousands of siblings queried for line_col in REVERSE document order (nothing may depend on the order of questions)."""
    from pest import Parser
    from pest.pairs import Position, Span

    text = (pattern * (n // len(pattern) + 1))[:n]
    fails, evals = [], 0
    starts = [0]
    for i, ch in enumerate(text):
        if ch == "\n":
            starts.append(i + 1)
    import bisect

    def ref(p):
        k = bisect.bisect_right(starts, p) - 1
        return (k + 1, p - starts[k] + 1)

    for p in list(range(0, n + 1, 7)) + [n, n - 1]:
        evals += 1
        got = tuple(Position(text, p).line_col())
        if got != ref(p):
            fails.append({"kind": "long:line_col", "text": f"({pattern!r} x {n} chars)", "pos": p, "got": list(got), "expected": list(ref(p))})
            break
    lines = ref_lines(text)
    for s0 in range(0, n, 301):
        for e0 in (s0, min(n, s0 + 1), min(n, s0 + 40), n):
            evals += 1
            want = lines[ref(s0)[0] - 1: ref(e0)[0]]
            got = list(Span(text, s0, e0).lines())
            if got != want:
                fails.append({"kind": "long:span.lines", "text": f"({pattern!r} x {n} chars)", "span": [s0, e0], "got": got[:3], "expected": want[:3]})
                break
    parser = Parser.from_grammar("r = { x* }\nx = { ANY }\n", optimizer=None)
    kids = parser.parse("r", text).first().children
    try:
        for pr in list(reversed(kids))[::3][:1500] + list(kids)[::50]:
            evals += 1
            got = tuple(pr.line_col())
            if got != ref(pr.start):
                fails.append({"kind": "long:pair.line_col", "text": f"({pattern!r} x {n} chars)", "pos": pr.start, "got": list(got), "expected": list(ref(pr.start))})
                break
    except Exception as exc:  # noqa: BLE001
        fails.append({"kind": f"long:exc:{type(exc).__name__}", "text": f"({pattern!r} x {n} chars)", "got": str(exc)[:80], "expected": "Pair.line_col() of a late sibling asked first"})
    return fails, evals


def _chunk(payload):
    if payload[0] == "long":
        f, e = check_long(payload[1], payload[2])
        return f, e, 0, 0, 0
    if payload[0] == "orders":
        _, length, first_parts = payload
        f, e = check_orders(length, first_parts)
        return f, e, 0, 0, 0
    if payload[0] == "histories":
        _, length, first_parts = payload
        f, e, same = check_histories(length, first_parts)
        return f, e, 0, 0, same
    return _chunk_texts(payload) + (0,)


def _chunk_texts(payload):
    alphabet, length, prefixes = payload
    fails, evals, nontriv, texts = [], 0, 0, 0
    for pre in prefixes:
        rest = length - len(pre)
        for tail in (itertools.product(alphabet, repeat=rest) if rest >= 0 else []):
            text = pre + "".join(tail)
            f, e, nt = check_text(text)
            texts += 1
            evals += e
            nontriv += nt
            if f and len(fails) < 50:
                fails.extend(f[:5])
    return fails, evals, nontriv, texts


def run(tier: str) -> int:
    rep = common.Report("C14", tier, "exploration")
    fails, evals, nontriv, texts = [], 0, 0, 0
    payloads = []
    for alphabet, maxlen in BOUNDS[tier]:
        for length in range(maxlen + 1):
            k = min(length, 2)
            prefixes = ["".join(t) for t in itertools.product(alphabet, repeat=k)]
            payloads.append((alphabet, length, prefixes[0::2]))
            if len(prefixes) > 1:
                payloads.append((alphabet, length, prefixes[1::2]))
    hist_len = HISTORY_LEN[tier]
    for length in range(1, hist_len + 1):
        parts = [list(t) for t in itertools.product("a\n", repeat=length)]
        for i in range(0, len(parts), 2):
            payloads.append(("histories", length, parts[i:i + 2]))
    for length in range(1, ORDER_LEN[tier] + 1):
        parts = [list(t) for t in itertools.product("a\n\u00e9", repeat=length)]
        for i in range(0, len(parts), 9):
            payloads.append(("orders", length, parts[i:i + 9]))
    for pat in LONG_PATTERNS:
        payloads.append(("long", pat, LONG_LEN[tier]))
    hist_evals = same_addr = 0
    for f, e, nt, t, same in common.parallel_map(_chunk, payloads, fresh=False, order_seed=common.seed()):
        fails.extend(f)
        evals += e
        nontriv += nt
        texts += t
        same_addr += same
        hist_evals += e if same or (f and "previous_text" in f[0]) else 0
    # regression witnesses of fixed findings
    regress = 0
    for fnd in common.fixed_findings("C14"):
        for w in fnd.get("witnesses", []):
            regress += 1
            if check_text(w["text"])[0]:
                rep.violation({"family": "fixed-witness", "finding": fnd["id"], "kind": "regression", **w})
    # minimal failing texts first
    fails.sort(key=lambda c: (len(c["text"]), c["text"], c["kind"]))
    seen_kinds = set()
    for c in fails:
        if c["kind"] in seen_kinds:
            continue
        seen_kinds.add(c["kind"])
        rep.violation({"family": "texts", **c})
    some = ["a\nb", "ab\n", "\n\n", ""]
    rep.coverage = {
        "evaluations": evals,
        "distinct_nontrivial": nontriv,
        "rule": "every text over the alphabet up to the length bound; per text every offset 0..len (line_col, line_of, Pair.line_col, injectivity of offset->line/col) "
                "and every span 0<=s<=e<=len (str, start_pos/end_pos/split, lines); a text is non-trivial when it contains at least one line break; evaluations counts (text, offset) and (text, span) cases",
        "samples": [{"text": t, "offsets": [[p, list(ref_line_col(t, p))] for p in range(len(t) + 1)]} for t in common.pick_samples(some, 3)],
        "exhaustive": True,
        "texts": texts,
        "long_texts": {"patterns": list(LONG_PATTERNS), "length": LONG_LEN[tier], "rule": "one text per pattern: line_col at every 7th offset, Span.lines on a grid of spans, and the pairs of a real parse "
                       "(r = { x* }, x = { ANY }: as many siblings as characters) asked for line_col in reverse document order"},
        "query_orders": {"length": ORDER_LEN[tier], "rule": "every text over {a, newline, e-acute} up to the length bound as ONE object queried at three offsets in every order "
                         "(Position.line_col, Pair.line_col, Position.line_col, then Span.lines): each answer must be that of its offset alone"},
        "two_text_histories": {"length": hist_len, "second_text_at_first_texts_address": same_addr,
                               "rule": "every ordered pair of different texts over {a, newline} of equal length <= the bound x every offset in the first x every offset in the second: "
                                       "line_col of the first, drop it, build the second, line_col and Span(q, len).lines() of the second must be those of the second text alone"},
        "bounds": [{"alphabet": a, "max_len": m} for a, m in BOUNDS[tier]],
        "failing_cases_seen": len(fails),
        "fixed_witnesses_replayed": regress,
    }
    rep.assumptions = [
        "line breaks are '\\n' only (the property's scope); '\\r', U+2028, VT, NEL, FS appear in the alphabets as ordinary characters",
        "line_of() may or may not include the line's terminating newline (the property does not say)",
        "Span.lines() includes the line holding the end position when it exists (pest's LinesSpan does the same)",
        "long texts: six patterned texts of 3,000 (thorough 20,000) characters, not an enumeration",
    ]
    return rep.finish()


def replay_case(case: dict) -> bool:
    if "offsets_in_order" in case:
        from pest.pairs import Position

        t = "".join(list(case["text"]))
        got = [tuple(Position(t, p).line_col()) for p in case["offsets_in_order"]]
        want = [ref_line_col(t, p) for p in case["offsets_in_order"]]
        print("  got", got, "expected", want)
        return got != want
    if "previous_text" in case:
        from pest.pairs import Position

        bad = False
        for _ in range(20):  # the second text must land on the first one's address for a memo keyed by id() to be consulted
            a = "".join(list(case["previous_text"]))
            Position(a, case["previous_pos"]).line_col()
            del a
            b = "".join(list(case["text"]))
            q = case["pos"] if "pos" in case else case["span"][0]
            got = tuple(Position(b, q).line_col())
            bad = bad or got != ref_line_col(b, q)
            del b
        print("  line_col after the previous text:", "wrong" if bad else "right")
        return bad
    fails, _, _ = check_text(case["text"])
    for f in fails[:10]:
        print("  ", f)
    return bool(fails)
