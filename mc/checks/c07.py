"""C07: parse() is total (Pairs or PestParsingError) and deterministic, in every mode."""

from __future__ import annotations

from .. import engine, families, gast, modes
from . import _grammar_check as gc

S, R = families.S, families.R


class C07(engine.Check):
    prop = "C07"
    modes = modes.MODES
    need_model = False

    def observe(self, parser, mode, spec, rule, text, k):
        a = modes.observe(parser, rule, text, k, detail=True)
        b = modes.observe(parser, rule, text, k, detail=True)
        if a != b:
            return ("nondeterministic", a, b)
        return a

    def plain(self, obs):
        return obs[1] if obs[0] == "nondeterministic" else obs

    def judge(self, spec, tab, model_obs, out):
        for mode in self.modes:
            t = tab.get(mode)
            if t is None:
                continue
            for key, obs in t.items():
                if obs[0] == "exc":
                    self.fail(out, spec, f"exc:{obs[1]}", mode, *key, "Pairs or PestParsingError", gc.show(obs))
                elif obs[0] == "timeout":
                    self.fail(out, spec, "timeout", mode, *key, "termination", "watchdog")
                elif obs[0] == "nondeterministic":
                    self.fail(out, spec, "nondeterministic", mode, *key, gc.show(obs[1]), gc.show(obs[2]))


def recursive_specs():
    """One bounded-depth recursive template (nesting stays far inside the recursion budget)."""
    rules = (("p", "", ("alt", (("seq", (S("("), R("p"), S(")"))), S("a")))),
             ("q", "@", ("seq", (("star", ("seq", (("not", S(")")), R("ANY")))), ("opt", R("p"))))),
             ("WHITESPACE", "_", S(" ")))
    return [engine.Spec(rules, ("p", "q"), families.inputs("()a ", 5), "zero", "recursive-template")]


def zero_count_specs():
    """Repetitions whose count may be zero - {0} {,0} {0,0} {0,} {0,1} {0,2} - which python-pest accepts: empty unrolled sequences."""
    operands = (S("a"), R("n"), R("ANY"), ("grp", ("seq", (S("a"), S("b")))), ("grp", ("alt", (S("a"), S("b")))), ("pop",), ("push", S("a")))
    forms = (("exact", 0), ("max", 0), ("minmax", 0, 0), ("min", 0), ("minmax", 0, 1), ("minmax", 0, 2), ("max", 1))
    out = []
    for tv in ("none", "ws"):
        starts = []
        for e in operands:
            for f in forms:
                x = (f[0], e) + tuple(f[1:])
                for body in (x, ("seq", (x, S("a"))), ("seq", (S("a"), x)), ("seq", (S("a"), x, S("b"))), ("alt", (("seq", (x, S("b"))), S("a"))), ("opt", x), ("and", x), ("not", x), ("push", x),
                             ("seq", (x, x)), ("seq", (("pushlit", "a"), x, ("peekall",)))):
                    starts.append((f"r{len(starts)}", "@" if len(starts) % 3 == 2 else "", body))
        rules = families.HELPERS + families.TRIVIA[tv] + tuple(starts)
        names = [r[0] for r in starts]
        for lo in range(0, len(names), 40):
            out.append(engine.Spec(rules, tuple(names[lo:lo + 40]), families.inputs("ab ", 3), "zero", f"zero-counts({tv})"))
    return out


def specs(tier: str):
    return zero_count_specs() + families.skip_specs("zero", tier) + families.metachar_specs("zero", tier) + families.builtin_specs("zero", tier) + families.recursive_specs("zero", tier, stack=True) + families.c01_specs(tier, kmode="zero", extra_trivia=("cm_nonatomic",), lean=True) + recursive_specs()


def run(tier: str) -> int:
    b = families.c01_bounds(tier, lean=True)
    return gc.run_model_check(
        C07(), specs(tier), tier, "exploration",
        bounds=[{"top": [{"n": n, "modifiers": list(m), "trivia": list(t)} for n, m, t in b["top"]], "contexts": [{"hole_size": h, "trivia": list(t)} for h, t in b["ctx"]], "stack_contexts_also_under": b.get("ctx_stack_under", []), "max_inputs_per_rule": b["max_inputs"]}],
        rule=families.c01_rule_text() + families.SKIP_RULE_TEXT + families.META_RULE_TEXT + families.BUILTIN_RULE_TEXT + "; plus the zero-counts family: {0} {,0} {0,0} {0,} {0,1} {0,2} {,1} over seven operands (literal, rule, ANY, sequence, choice, POP, PUSH) in eleven contexts, with and without implicit whitespace, inputs over {a,b,space} up to length 3"
             "; plus one recursive template p = { \"(\" ~ p ~ \")\" | \"a\" } with inputs up to length 5. Oracle: in each of the four modes the only outcomes are Pairs or PestParsingError "
             "(any other exception, or the 20 s watchdog, is a violation) and an immediately repeated call returns an equal observation (tree, or furthest_pos + expected/unexpected sets). "
             "The families are chosen because escaping exceptions live in uncommon paths: empty stack, zero iterations, input ending mid-construct. Non-trivial: the first mode returned at least one pair",
        assumptions=["termination is only checked up to a 20 s watchdog per call"],
        validate_model=False, still_violates=replay_case,
    )


def replay_case(case: dict) -> bool:
    p = modes.build(case["grammar"], case["mode"])
    a = modes.observe(p, case["rule"], case["input"], case.get("start_pos", 0), detail=True)
    b = modes.observe(p, case["rule"], case["input"], case.get("start_pos", 0), detail=True)
    print("  first :", gc.show(a))
    print("  second:", gc.show(b))
    return a[0] == "exc" or a != b
