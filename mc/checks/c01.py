"""C01: the generated parser module is observationally identical to the interpreter."""

from __future__ import annotations

from .. import common, engine, families, modes
from . import _grammar_check as gc

PAIRS = (("IU", "GU"), ("IO", "GO"))


class C01(engine.Check):
    prop = "C01"
    modes = modes.MODES
    need_model = False

    def on_build(self, spec, mode, parser, out):
        if mode in ("IU", "IO"):
            a = parser.generate()
            b = parser.generate()
            if a != b:
                self.fail(out, spec, "generate-not-deterministic", mode, "", "", 0, "byte-identical source", "two different sources")

    def judge(self, spec, tab, model_obs, out):
        for im, gm in PAIRS:
            ti, tg = tab.get(im), tab.get(gm)
            if ti is None or tg is None:
                continue
            for key, oi in ti.items():
                og = tg[key]
                pair = f"{im}/{gm}"
                if og[0] in ("exc", "timeout"):
                    self.fail(out, spec, f"exc:{og[1]}" if og[0] == "exc" else "timeout", gm, *key, gc.show(oi), gc.show(og))
                elif oi[0] in ("exc", "timeout"):
                    # the interpreter raising something else is C07's business; here only the comparison matters
                    if og[0] != oi[0]:
                        self.fail(out, spec, "differs", pair, *key, gc.show(oi), gc.show(og))
                elif oi != og:
                    kind = "tree" if oi[0] == og[0] == "ok" else ("furthest_pos" if oi[0] == og[0] == "fail" else ("rejects" if oi[0] == "ok" else "accepts"))
                    self.fail(out, spec, kind, pair, *key, gc.show(oi), gc.show(og))


NAME_GRAMMARS = [
    # (label, grammar text, start rules): generated identifiers (parse_<name>, Rule.<NAME>) and the synthetic SKIP rule derive from rule names
    ("case-twins", 'n = { "a" }\nN = { "b" }\nr = { n ~ N }\n', ("r", "n", "N")),
    ("rule-named-trivia", 'WHITESPACE = _{ " " }\ntrivia = { "a" }\nr = { trivia ~ trivia }\n', ("r", "trivia")),
    ("rule-named-SKIP", 'COMMENT = _{ "#" }\nSKIP = { "a" }\nr = { SKIP ~ SKIP }\n', ("r", "SKIP")),
    ("underscore-name", '_x = { "a" }\nr = { _x ~ _x }\n', ("r", "_x")),
    ("python-names", 'state = { "a" }\npairs = { "b" }\ninner = { state ~ pairs }\nr = { inner }\n', ("r", "inner", "state", "pairs")),
    ("keyword-like", 'Rule = { "a" }\nparse = { Rule }\nre = { parse ~ "b" }\nr = { re }\n', ("r", "re", "parse", "Rule")),
    ("enum-names", 'name = { "a" }\nvalue = { "b" }\nr = { name ~ value }\n', ("r", "name", "value")),
]


def _systematic_names():
    """Every identifier of up to 3 characters over {_, a, A, 1} (underscore patterns that Enum / name mangling treat specially),
    plus Python keywords, builtins and the identifiers the generated module itself uses."""
    import itertools

    short = [f + "".join(t) for f in "_aA" for k in range(0, 3) for t in itertools.product("_aA1", repeat=k)]
    short += ["__a__", "_a__", "__a_", "_1_", "___", "____a", "_a_a_"]
    words = ["SKIP", "class", "def", "None", "True", "import", "self", "state", "pairs", "parse", "Rule", "skip_trivia", "Pair", "Pairs", "re", "regex", "pos", "matched", "print", "len", "str", "input",
             "stack", "rule", "rules", "Parser", "ParserState", "PestParsingError", "RuleFrame", "lambda", "async", "match", "case", "type", "__init__", "__name__", "parse_a", "children", "start", "Enum", "StrEnum",
             "auto", "annotations", "Iterator", "TYPE_CHECKING", "_RULE_MAP", "modifier", "tag", "mro", "name", "value", "_ignore_", "_missing_", "_order_", "_generate_next_value_", "RULE_A_", "rule_a_", "A", "a_A"]
    names = list(dict.fromkeys(short + words))
    text = "".join(f'{n} = {{ "a" ~ "b"? }}\n' for n in names) + "top = { " + " | ".join(names) + " }\n"
    return tuple((f"systematic-names-{i // 40 + 1}", text, tuple(names[i:i + 40]) + (("top",) if i == 0 else ())) for i in range(0, len(names), 40))


NAME_GRAMMARS += list(_systematic_names())


def name_specs():
    out = []
    ins = families.inputs("ab #", 3)
    for label, text, starts in NAME_GRAMMARS:
        s = engine.Spec((), starts, ins, "zero", f"names({label})")
        s._text = text
        s.raw = True
        out.append(s)
    return out


def specs(tier: str):
    return families.c01_specs(tier, kmode="zero", extra_trivia=("both_overlap", "cm_nonatomic", "cm_stack", "ws_pop", "both_seq"), ctx2_trivia=("ws_pop",)) + start_pos_specs(tier) + name_specs() + families.skip_specs("zero", tier) + families.explicit_trivia_specs("zero", tier) + families.metachar_specs("zero", tier) + families.builtin_specs("zero", tier) + families.recursive_specs("zero", tier) + families.recursive_specs("zero", tier, stack=True) + families.ctx3_specs("zero", tier, (families.S("a"), families.R("n"), families.R("ANY"), families.R("EOI"), ("push", families.S("a")), ("pop",)), ("none",) if tier == "quick" else ("none", "ws"))


def start_pos_specs(tier: str):
    """A slice of the same family with every start position (L <= 3)."""
    sub = families.c01_specs("quick", kmode="all", max_inputs=40)
    return [s for i, s in enumerate(sub) if i % (4 if tier == "quick" else 1) == 0]


def run(tier: str) -> int:
    b = families.C01_BOUNDS[tier]
    return gc.run_model_check(
        C01(), specs(tier), tier, "exploration",
        bounds=[{"top": [{"n": n, "modifiers": list(m), "trivia": list(t)} for n, m, t in b["top"]], "contexts": [{"hole_size": h, "trivia": list(t)} for h, t in b["ctx"]],
                 "max_inputs_per_rule": b["max_inputs"], "start_positions": "0, plus every k<=len on a slice with L<=3", "name_grammars": [g[0] for g in NAME_GRAMMARS]}],
        rule=families.c01_rule_text() + families.SKIP_RULE_TEXT + families.EXPLICIT_RULE_TEXT + families.META_RULE_TEXT + families.BUILTIN_RULE_TEXT + "; (c) grammars whose rule names collide with generated identifiers. Oracle (relational, no model): generate() compiles and is byte-identical when called twice; "
             "for every (rule, input, start position) the generated module returns exactly the interpreter's tree incl. tags, or both raise PestParsingError with equal furthest_pos (IU vs GU, IO vs GO). "
             "Non-trivial: the interpreter returned at least one pair",
        validate_model=False, still_violates=replay_case_bool,
    )


def replay_case_bool(case: dict) -> bool:
    m = case["mode"]
    im, gm = (m.split("/") if "/" in m else ({"GU": "IU", "GO": "IO"}.get(m, m), m))
    try:
        pi = modes.build(case["grammar"], im)
        oi = modes.observe(pi, case["rule"], case["input"], case.get("start_pos", 0))
    except Exception as exc:  # noqa: BLE001
        print("  interpreter build failed:", type(exc).__name__, exc)
        return False
    try:
        pg = modes.build(case["grammar"], gm)
    except Exception as exc:  # noqa: BLE001
        print("  generated module failed to build:", type(exc).__name__, exc)
        return True
    og = modes.observe(pg, case["rule"], case["input"], case.get("start_pos", 0))
    print(f"  {im}:", gc.show(oi))
    print(f"  {gm}:", gc.show(og))
    return oi != og


def replay_case(case: dict) -> bool:
    return replay_case_bool(case)
