"""C16: parsing from start_pos equals parsing the suffix, shifted (SOI-free grammars, 4 modes)."""

from __future__ import annotations

from .. import engine, families, modes
from . import _grammar_check as gc

S, R = families.S, families.R
# regex-backed terminals matter here (a regex anchored at the wrong place consults earlier characters)
T_C16 = tuple(t for t in families.T_FULL if t != R("SOI")) + (R("ASCII_ALPHA_UPPER"), ("star", ("grp", ("seq", (("not", S("b")), R("ANY"))))), ("alt", (S("a"), S("b"), ("range", "A", "B"))),
                            ("star", ("grp", ("seq", (("not", ("grp", ("alt", (S("a"), S("b"))))), R("ANY"))))),
                            # a stop string that overlaps itself (which occurrences a non-overlapping scan finds depends on where it starts)
                            ("star", ("grp", ("seq", (("not", S("aa")), R("ANY"))))))


def shift_tree(tree, k):
    return tuple((t[0], t[1] + k, t[2] + k, t[3], shift_tree(t[4], k)) for t in tree)


def shift(obs, k):
    if obs[0] == "ok":
        return ("ok", shift_tree(obs[1], k))
    if obs[0] == "fail":
        return ("fail", obs[1] if obs[1] < 0 else obs[1] + k)
    return obs


class C16(engine.Check):
    prop = "C16"
    modes = modes.MODES
    need_model = False

    def observe(self, parser, mode, spec, rule, text, k):
        whole = modes.observe(parser, rule, text, k)
        if k == 0:
            return ("same", whole)
        suffix = modes.observe(parser, rule, text[k:], 0)
        return ("pair", whole, shift(suffix, k))

    def plain(self, obs):
        return obs[1]

    def judge(self, spec, tab, model_obs, out):
        for mode in self.modes:
            t = tab.get(mode)
            if t is None:
                continue
            for key, obs in t.items():
                if obs[0] == "pair" and obs[1] != obs[2]:
                    a, b = obs[1], obs[2]
                    if a[0] in ("exc", "timeout") and b[0] == a[0]:
                        continue  # both raise: C07's business
                    kind = "tree" if a[0] == b[0] == "ok" else ("furthest_pos" if a[0] == b[0] == "fail" else "outcome")
                    self.fail(out, spec, kind, mode, *key, gc.show(b), gc.show(a))


def specs(tier: str):
    sp = families.c01_specs(tier, kmode="all", terminals=T_C16, max_inputs=45 if tier == "quick" else 130, lean=True)
    return sp + [x for x in families.skip_specs("all", tier) if True]


def run(tier: str) -> int:
    b = families.c01_bounds(tier, lean=True)
    return gc.run_model_check(
        C16(), specs(tier), tier, "exploration",
        bounds=[{"top": [{"n": n, "modifiers": list(m), "trivia": list(t)} for n, m, t in b["top"]], "contexts": [{"hole_size": h, "trivia": list(t)} for h, t in b["ctx"]], "stack_contexts_also_under": b.get("ctx_stack_under", []),
                 "start_positions": "every k in 0..len(text)", "max_inputs_per_rule": 45 if tier == "quick" else 130}],
        rule=families.c01_rule_text() + families.SKIP_RULE_TEXT + "; terminals extended by ASCII_HEX_DIGIT, (!\"b\" ~ ANY)* and a squashable choice (regex-backed after optimisation); no member uses SOI. "
             "For every text and every k in 0..len: observation of parse(rule, text, start_pos=k) must equal the observation of parse(rule, text[k:]) with every position (and furthest_pos, except the -1 sentinel) shifted by k. "
             "Non-trivial: the first mode returned at least one pair",
        validate_model=False, still_violates=replay_case,
    )


def replay_case(case: dict) -> bool:
    p = modes.build(case["grammar"], case["mode"])
    k = case.get("start_pos", 0)
    a = modes.observe(p, case["rule"], case["input"], k)
    b = shift(modes.observe(p, case["rule"], case["input"][k:], 0), k)
    print("  at start_pos  :", gc.show(a))
    print("  suffix shifted:", gc.show(b))
    return a != b
