"""C13: parse failures carry a valid position and a message that always renders (4 modes)."""

from __future__ import annotations

import re

from .. import engine, families, gast, modes
from . import _grammar_check as gc

BUILTIN_NAMES = None


def builtin_names():
    global BUILTIN_NAMES
    if BUILTIN_NAMES is None:
        from pest import Parser

        BUILTIN_NAMES = set(Parser.BUILTIN)
    return BUILTIN_NAMES


def line_conventions(text, p):
    """(line, column, source line) of offset p under each way of cutting a text into lines that an implementation may
    consistently use: (A) lines end at "\\n" (what Position.line_col documents); (B) str.splitlines() boundaries.
    The two agree unless the text holds a lone \\r, \\v, \\f, \\x1c-\\x1e, \\x85, U+2028 or U+2029."""
    n = len(text)
    ls = text.rfind("\n", 0, p) + 1
    le = text.find("\n", p)
    out = [(1 + text.count("\n", 0, p), p - ls + 1, text[ls:(n if le == -1 else le)])]
    start, lineno = 0, 1
    for ln in text.splitlines(keepends=True):
        body = ln.rstrip("\r\n\x0b\x0c\x1c\x1d\x1e\x85\u2028\u2029")
        if start <= p < start + len(ln) or (p == n and start + len(ln) == n and body == ln):
            out.append((lineno, p - start + 1, body))
            break
        start += len(ln)
        lineno += 1
    else:
        out.append((lineno, p - start + 1, ""))
    return out


def failure_invariants(err, text, k, rule_names):
    from pest.exceptions import error_context

    bad = []
    st = err.state
    p = st.furthest_pos
    n = len(text)
    if not (p == -1 or k <= p <= n):
        bad.append("furthest_pos-out-of-range")
    names = rule_names | builtin_names()
    for d in (st.furthest_expected, st.furthest_unexpected):
        for key, labels in d.items():
            if key not in names:
                bad.append("label-rule-not-in-grammar")
            if not all(isinstance(x, str) for x in labels):
                bad.append("label-not-a-string")
    try:
        s = str(err)
        dm = err.detailed_message()
        err.expected(st.furthest_expected, st.furthest_unexpected)
        err.expected_labels(st.furthest_expected, st.furthest_unexpected)
        repr(err)
        if s != dm:
            bad.append("str-vs-detailed_message")
    except Exception as exc:  # noqa: BLE001
        bad.append(f"render-raises:{type(exc).__name__}")
        return sorted(set(bad))
    if p >= 0 and "furthest_pos-out-of-range" not in bad:
        convs = line_conventions(text, p)
        try:
            line, lineno, col = error_context(text, p)
            at = [c for c in convs if (lineno, col) == (c[0], c[1])]
            if not at:
                bad.append("error_context-line-col")
            elif not any(line.rstrip() == c[2].rstrip() for c in at):
                bad.append("error_context-line")
        except Exception as exc:  # noqa: BLE001
            bad.append(f"error_context-raises:{type(exc).__name__}")
        # the message must show L:C of p and the source line of p - wherever and however it lays them out
        shown = [(int(a), int(b)) for a, b in re.findall(r"(?<![\d:])(\d+):(\d+)(?![\d:])", s)]
        at = [c for c in convs if (c[0], c[1]) in shown]
        if not shown:
            bad.append("message-has-no-location")
        elif not at:
            bad.append("message-line-col")
        elif not any((not c[2].strip()) or c[2].rstrip() in s for c in at):
            bad.append("message-source-line")
    return sorted(set(bad))


class C13(engine.Check):
    prop = "C13"
    modes = modes.MODES
    need_model = False
    nontrivial_is_reject = True   # the property is about rejected inputs

    def observe(self, parser, mode, spec, rule, text, k):
        from pest import PestParsingError

        try:
            pairs = parser.parse(rule, text, start_pos=k)
        except PestParsingError as err:
            names = _names(spec)
            try:
                bad = failure_invariants(err, text, k, names)
            except Exception as exc:  # noqa: BLE001
                bad = [f"api-raises:{type(exc).__name__}"]
            return ("fail", err.state.furthest_pos, tuple(bad))
        except Exception as exc:  # noqa: BLE001
            return ("exc", type(exc).__name__)
        return ("ok", ())

    def plain(self, obs):
        return ("fail", 0) if obs[0] != "ok" else ("ok", (1,))

    def judge(self, spec, tab, model_obs, out):
        for mode in self.modes:
            t = tab.get(mode)
            if t is None:
                continue
            for key, obs in t.items():
                if obs[0] == "fail" and obs[2]:
                    self.fail(out, spec, "invariant:" + obs[2][0], mode, *key, "valid position, known rule names, message renders and points at furthest_pos",
                              {"violated": list(obs[2]), "furthest_pos": obs[1]})


def _names(spec):
    if "names" not in spec.cache:
        spec.cache["names"] = {r[0] for r in spec.rules}
    return spec.cache["names"]


SEPARATORS = ("\r", "\x0b", "\x0c", "\x1c", "\x1d", "\x1e", "\x85", "\u2028", "\u2029", "\t", "\u00a0",
              # characters that are not one terminal cell wide, or not one UTF-8 / UTF-16 unit long: columns are counted in characters
              "\U0001F600", "\u0301", "\u4e2d", "\uff21", "\u200b")


def separator_specs(tier: str):
    """Multi-line inputs that also hold one of the characters str.splitlines() cuts at (and two it does not)."""
    S = families.S
    any_ = ("ref", "ANY")
    rules = (
        ("r", "", ("seq", (("star", ("seq", (("not", S("b")), any_))), S("c")))),
        ("line", "", ("star", S("a"))),
        ("q", "", ("seq", (("ref", "line"), ("star", ("seq", (S("\n"), ("ref", "line")))), ("ref", "EOI")))),
        ("t", "@", ("seq", (any_, any_, S("c")))),
    )
    L = 4 if tier == "quick" else 5
    return [engine.Spec(rules, ("r", "q", "t"), tuple(gast.strings_upto("ab\n" + sep, L)), "all", f"separators({sep!r},L={L})") for sep in SEPARATORS]


def specs(tier: str):
    return separator_specs(tier) + families.builtin_specs("zero", tier) + families.c01_specs(tier, kmode="all", extra_sigma="\né", max_inputs=45 if tier == "quick" else 160, extra_trivia=("cm_pred", "cm_nonatomic", "both_overlap"), sigma_core="aA", lean=True)


def run(tier: str) -> int:
    b = families.c01_bounds(tier, lean=True)
    return gc.run_model_check(
        C13(), specs(tier), tier, "exploration",
        bounds=[{"top": [{"n": n, "modifiers": list(m), "trivia": list(t)} for n, m, t in b["top"]], "contexts": [{"hole_size": h, "trivia": list(t)} for h, t in b["ctx"]], "stack_contexts_also_under": b.get("ctx_stack_under", []),
                 "alphabet": "a A + trivia symbols + newline + é", "start_positions": "every k in 0..len(text)"}],
        rule=families.c01_rule_text() + "; input alphabet extended by '\\n' and 'é' (multi-line, non-ASCII), every start position. Oracle on every rejected (grammar, input, start_pos) in four modes: "
             "furthest_pos == -1 or start_pos <= furthest_pos <= len; keys of furthest_expected/unexpected are rules of the grammar or built-ins and labels are strings; str(), detailed_message(), expected(), expected_labels() do not raise; "
             "for furthest_pos >= 0 the L:C in the message and error_context() equal (1 + newlines before p, 1 + distance from the last newline) and the source line shown is line L (up to trailing whitespace) - "
             "or the same three under str.splitlines() boundaries, consistently" + families.BUILTIN_RULE_TEXT + "; plus the separators family (also an emoji, a combining mark, a CJK and a fullwidth character, a zero-width space): three rules over every string up to length L over {a, b, newline, s} for s in \\r \\v \\f \\x1c \\x1d \\x1e \\x85 U+2028 U+2029 \\t U+00A0. "
             "Non-trivial: the case was rejected (those are the cases this property is about)",
        validate_model=False, still_violates=replay_case,
    )


def replay_case(case: dict) -> bool:
    from pest import PestParsingError

    from .. import metaref

    p = modes.build(case["grammar"], case["mode"])
    d = metaref.oracle().denote(case["grammar"])
    names = {n for n, _, _, _ in d[0]}
    try:
        p.parse(case["rule"], case["input"], start_pos=case.get("start_pos", 0))
    except PestParsingError as err:
        bad = failure_invariants(err, case["input"], case.get("start_pos", 0), names)
        print("  violated:", bad, "furthest_pos", err.state.furthest_pos)
        return bool(bad)
    print("  parse succeeds now")
    return False
