"""C04: implicit WHITESPACE/COMMENT and the atomicity modifiers follow pest's rules (4 modes)."""

from __future__ import annotations

from .. import common, engine, families, gast, modes
from . import _grammar_check as gc
from .c03 import C03

S, R = families.S, families.R

PACKS = {
    # flat: one sequence inside every modifier
    "P1": (("n", "", S("a")),
           ("at", "@", ("seq", (R("n"), S("b")))),
           ("cp", "$", ("seq", (R("n"), S("b")))),
           ("na", "!", ("seq", (R("n"), S("b")))),
           ("sl", "_", ("seq", (R("n"), S("b"))))),
    # nesting depth 3: $ calls @ calls ! calls normal
    "P2": (("n", "", S("a")),
           ("na", "!", ("seq", (R("n"), R("n")))),
           ("at", "@", ("seq", (S("b"), R("na")))),
           ("cp", "$", ("seq", (R("n"), R("at")))),
           ("sl", "_", ("seq", (R("at"), R("n"))))),
    # repetitions inside modifiers; a $ rule that is not the whole body of an @ rule
    "P3": (("n", "", S("a")),
           ("cp", "$", ("plus", R("n"))),
           ("at", "@", ("seq", (S("b"), R("cp"), R("n")))),
           ("na", "!", ("seq", (("star", R("n")), S("b")))),
           ("sl", "_", ("seq", (R("cp"), S("b"))))),
}
PACKS["P4"] = (("n", "", S("a")),
               ("at", "@", ("plus", R("n"))),                                   # repetition of a rule inside @
               ("na", "!", ("seq", (R("at"), R("at")))),                         # ! calling @ twice: trivia between, not inside
               ("cp", "$", ("seq", (R("na"), S("b")))),                          # $ calling ! : trivia re-enabled inside na only
               ("sl", "_", ("star", ("grp", ("alt", (R("cp"), R("at")))))))      # silent repetition over modifier rules
PACKS["P5"] = (("n", "", S("a")),
               ("at", "@", ("seq", (("opt", R("n")), S("b"), ("not", R("n"))))),  # optional / predicate inside @
               ("cp", "$", ("seq", (("and", R("n")), R("n"), ("star", S("b"))))),
               ("na", "!", ("seq", (("opt", S("b")), R("n")))),
               ("sl", "_", ("seq", (("not", S("b")), R("n"), ("opt", R("at"))))))
T_TR = (S("a"), S("b"), R("n"), R("at"), R("cp"), R("na"), R("sl"))
MODS = ("", "_", "@", "$", "!")

BOUNDS = {
    # (max body size, max number of inputs -> L per alphabet, trivia configs, packs, start modifiers)
    "quick": [
        (2, 160, ("none", "ws", "ws_loud", "cm2", "both", "ws_choice", "cm1"), ("P1", "P2", "P3"), MODS),
        (2, 160, ("ws", "ws_loud", "both"), ("P4", "P5"), MODS),
        (2, 160, ("ws_pairs",), ("P1", "P4"), ("", "@", "!")),
        (2, 160, ("both_overlap", "cm_nonatomic", "both_seq"), ("P1",), ("", "@", "!")),
        (3, 45, ("ws", "cm2", "both_loud"), ("P1", "P3"), ("", "@", "!")),
    ],
    "thorough": [
        (3, 400, ("none", "ws", "ws_loud", "cm2", "both", "ws_choice", "cm1", "both_loud"), ("P1", "P2", "P3"), MODS),
        (3, 160, ("ws", "ws_loud", "both"), ("P4", "P5"), MODS),
        (3, 160, ("ws_pairs", "both_overlap", "cm_nonatomic"), ("P1", "P4"), ("", "@", "!")),
        (4, 45, ("ws", "cm2"), ("P1", "P3"), ("", "@")),
    ],
}


def length_for(alphabet: str, max_inputs: int) -> int:
    L, total = 0, 1
    while total + len(alphabet) ** (L + 1) <= max_inputs:
        L += 1
        total += len(alphabet) ** L
    return L
BATCH = 40


class C04(C03):
    prop = "C04"
    modes = modes.MODES

    def judge(self, spec, tab, model_obs, out):
        for mode in self.modes:
            t = tab.get(mode)
            if t is None:
                continue
            for key, mo in model_obs.items():
                obs = t[key]
                if obs[0] == "timeout" and mo[0] == "unspec" and "matched empty" in str(mo[1]):
                    continue  # a repetition over something that matched empty: outside the domain of the property (it need not terminate)
                if obs[0] in ("exc", "timeout"):
                    self.fail(out, spec, f"exc:{obs[1]}" if obs[0] == "exc" else "timeout", mode, *key, gc.show(mo), gc.show(obs))
                elif not modes.same_outcome_as_model(obs, mo):
                    kind = "tree" if (mo[0] == "ok" and obs[0] == "ok") else ("rejects" if mo[0] == "ok" else "accepts")
                    self.fail(out, spec, kind, mode, *key, gc.show(mo), gc.show(obs))


def specs(tier: str):
    out = []
    for n, max_inputs, trivs, packs, mods in BOUNDS[tier]:
        for pack in packs:
            helpers = PACKS[pack]
            env = gast.Env(helpers)
            bodies = gast.exprs_upto(n, T_TR, gast.U_CORE, ("seq", "alt"), env)
            for tv in trivs:
                sigma = "ab" + families.TRIVIA_SIGMA[tv]
                L = length_for(sigma, max_inputs)
                ins = families.inputs(sigma, L)
                starts = []
                for body in bodies:
                    for m in mods:
                        starts.append((f"r{len(starts)}", m, body))
                for i in range(0, len(starts), BATCH):
                    grp = starts[i:i + BATCH]
                    rules = families.TRIVIA[tv] + helpers + tuple(grp)
                    if not gast.well_formed(rules):
                        raise common.HarnessError("family produced an ill-formed grammar")
                    out.append(engine.Spec(rules, [g[0] for g in grp], ins, "zero", f"trivia({pack},{tv},n<={n},L={L})"))
    return out + families.extra_specs("zero", tier) + families.skip_specs("zero", tier, full=True) + backtrack_specs(tier) + families.explicit_trivia_specs("zero", tier) + composed_specs(tier) + nested_trivia_specs(tier) + families.recursive_specs("zero", tier, trivs=("ws",)) + families.recursive_specs("zero", tier, stack=True, trivs=("ws",))


def nested_trivia_specs(tier: str):
    """An implicit rule whose body calls a NON-ATOMIC rule: inside that rule implicit rules are live again (nested trivia inside trivia)."""
    S, R = families.S, families.R
    triv = (("WHITESPACE", "_", ("alt", (S(" "), R("g")))), ("g", "!", ("seq", (S("("), S(")")))))
    loud = (("WHITESPACE", "_", S(" ")), ("COMMENT", "", ("seq", (S("("), R("w"), S(")")))), ("w", "!", ("seq", (S("a"), ("star", S("a"))))))
    bodies = (("seq", (S("a"), S("b"))), ("seq", (("star", S("a")), S("b"))), ("plus", ("grp", ("seq", (S("a"), S("b"))))), ("seq", (S("a"), ("opt", S("a")), S("b"))),
              ("seq", (("and", ("seq", (S("a"), S("b")))), S("a"), S("b"))), ("alt", (("seq", (S("a"), S("b"), S("!"))), ("seq", (S("a"), S("b"))))))
    out = []
    L = 5 if tier == "quick" else 6
    for label, tr, sigma in (("ws-calls-nonatomic", triv, "ab ()"), ("comment-calls-nonatomic", loud, "ab ()")):
        starts = [(f"r{i}", m, b) for i, (b, m) in enumerate((b, m) for b in bodies for m in ("", "@", "!"))]
        out.append(engine.Spec(tr + tuple(starts), [x[0] for x in starts], families.inputs(sigma, L), "zero", f"nested-trivia({label},L={L})"))
    return out


def composed_specs(tier: str):
    """outer(inner(terminal)) for every terminal of the full set (stack operations and tagged terms included) and every pair of contexts,
    under WHITESPACE and under a one-character COMMENT, judged by the reference model in four modes (tags are not compared)."""
    names = families.CTX2_QUICK if tier == "quick" else None
    terms = tuple(t for t in families.T_FULL if t != families.R("SOI"))
    return families.ctx2_specs("zero", tier, terms, ("ws", "cm1") if tier == "quick" else ("ws", "cm1", "both", "ws_loud"), names, "ab", "", 45)


def backtrack_specs(tier: str):
    """A rule with its own atomicity called inside something that is then abandoned (or inside a predicate), followed by a place where
    implicit trivia is or is not allowed: atomic depth and pair hiding must be exactly what they were before the abandoned call."""
    S, R = families.S, families.R
    out = []
    bodies = {"a": S("a"), "a a?": ("seq", (S("a"), ("opt", S("a")))), "w a": ("seq", (R("w"), S("a"))), "a a": ("seq", (S("a"), S("a")))}
    helpers = []
    for hm in ("", "_", "@", "$", "!"):
        for bi, (bl, hb) in enumerate(bodies.items()):
            helpers.append((f"h{len(helpers)}", hm, hb))
    helpers = tuple(helpers) + (("w", "", S("b")),)
    starts = []
    for h in helpers[:-1]:
        H = R(h[0])
        tail = ("seq", (S("b"), S("b")))
        for wrapped in (("grp", ("alt", (("seq", (H, S("!"))), H))), ("seq", (("opt", ("grp", ("seq", (H, S("!"))))), H)), ("seq", (("and", H), H)), ("seq", (("not", ("grp", ("seq", (H, S("!"))))), H)),
                        ("seq", (("star", ("grp", ("seq", (H, S("!"))))), H)), ("grp", ("alt", (("seq", (H, H, S("!"))), H)))):
            for m0 in ("", "@", "$", "!"):
                starts.append((f"r{len(starts)}", m0, ("seq", (wrapped, tail))))
    # the SAME rule reached first through a wrapper rule with another atomicity (where it fails only because trivia is not allowed there),
    # then plainly at the same position: nothing remembered about the first attempt may decide the second
    wrappers = []
    for h in helpers[:-1]:
        for wm in ("@", "$", "!"):
            wrappers.append((f"w{len(wrappers)}", wm, ("seq", (R(h[0]), S("!")))))
            wname = wrappers[-1][0]
            short = ("opt", S("b"))      # a short tail: the interesting inputs are three characters long ("a a")
            for m0 in ("", "@", "!"):
                starts.append((f"r{len(starts)}", m0, ("seq", (("grp", ("alt", (R(wname), R(h[0])))), short))))
                starts.append((f"r{len(starts)}", m0, ("seq", (("not", R(wname)), R(h[0]), short))))
                starts.append((f"r{len(starts)}", m0, ("seq", (("opt", R(wname)), R(h[0]), short))))
    helpers = helpers + tuple(wrappers)
    for tv, sigma, L in (("ws", "ab ", 5 if tier == "thorough" else 4), ("ws_loud", "ab ", 4)):
        ins = families.inputs(sigma, L)
        for i in range(0, len(starts), BATCH):
            grp = starts[i:i + BATCH]
            out.append(engine.Spec(families.TRIVIA[tv] + helpers + tuple(grp), [g[0] for g in grp], ins, "zero", f"atomic-backtrack({tv},L={L})"))
    return out


def run(tier: str) -> int:
    return gc.run_model_check(
        C04(), specs(tier), tier, "model_checking",
        bounds=[{"n": n, "L": {tv: length_for("ab" + families.TRIVIA_SIGMA[tv], mi) for tv in t}, "packs": list(p), "start_modifiers": list(m)} for n, mi, t, p, m in BOUNDS[tier]],
        rule="start rule bodies: every expression with <= n nodes over {\"a\",\"b\",n,at,cp,na,sl} (helper packs P1-P5 give @ $ ! _ rules with sequences, repetitions, optionals, predicates and modifier nestings of depth 3-4), "
             "all unary operators and ~ |, x start-rule modifier x trivia configuration (none / WHITESPACE silent / non-silent / COMMENT two-element / both / choice body / one-char comment / both non-silent) "
             "x every input over {a,b}+trivia symbols up to length L, in all four modes against the reference model; start rules are batched 40 per grammar and failing cases are re-run on the isolated rule; "
             "a case is non-trivial when the reference run backtracked (incl. giving back trivia) or returned pairs" + families.EXTRA_RULE_TEXT + families.SKIP_RULE_TEXT + families.EXPLICIT_RULE_TEXT + families.RECURSIVE_RULE_TEXT + " (under implicit WHITESPACE, with rule references and with stack operations)" + "; plus nested trivia: WHITESPACE = _{ \" \" | g } with g = !{ \"(\" ~ \")\" }, and a non-silent COMMENT = { \"(\" ~ w ~ \")\" } with w = !{ \"a\" ~ \"a\"* }, under six bodies x normal/@/! on every input over {a,b,blank,(,)} up to length 5"
             "; plus composed contexts: outer(inner(terminal)) for every terminal of the full set (literals, built-ins, stack operations, tagged terms) and every pair of 13 contexts (thorough: 30), under WHITESPACE and under a one-character COMMENT"
             "; plus atomic-backtrack (also: the same helper first reached through an @ / $ / ! wrapper rule that then fails, then plainly at the same position): 20 helper rules (modifier normal/_/@/$/! x four bodies) called inside an abandoned alternative, an abandoned optional, & , !, an abandoned repetition iteration "
             "and twice in an abandoned sequence, then called again and followed by \"b\" ~ \"b\", from normal/@/$/! start rules, with silent and non-silent WHITESPACE" + " (zero counts are UNSPEC for the model: judged on 'no foreign exception' only)",
        assumptions=["helper packs are fixed (five), not enumerated", "tags are not modelled"],
    )


def replay_case(case: dict) -> bool:
    return gc.replay_model_case(case)
