"""C12: character terminals and escapes denote exactly the specified code points.

The complete code space U+0000..U+10FFFF (1,114,112 values, surrogates included) x a family of
one-character expressions x four modes, one parse("r", chr(cp)) per point on a one-rule grammar.
"""

from __future__ import annotations

import os

from .. import common, modes

N_CP = 0x110000
SLICES = 64  # code space slices distributed over workers


def rng(lo, hi):
    return ("range", lo, hi)


def lit(c):
    return ("lit", c)


def esc(c):
    o = ord(c)
    if c in "\\'\"":
        return "\\" + c
    if 0x20 <= o < 0x7F:
        return c
    return "\\u{%04X}" % o


def text_of(e):
    k = e[0]
    if k == "builtin":
        return e[1]
    if k == "range":
        return f"'{esc(e[1])}'..'{esc(e[2])}'"
    if k == "lit":
        return '"' + esc(e[1]) + '"'
    if k == "ci":
        return '^"' + esc(e[1]) + '"'
    if k == "alt":
        return "(" + " | ".join(text_of(x) for x in e[1]) + ")"
    raise ValueError(e)


ASCII = {
    "ASCII_DIGIT": lambda c: 0x30 <= c <= 0x39,
    "ASCII_NONZERO_DIGIT": lambda c: 0x31 <= c <= 0x39,
    "ASCII_BIN_DIGIT": lambda c: c in (0x30, 0x31),
    "ASCII_OCT_DIGIT": lambda c: 0x30 <= c <= 0x37,
    "ASCII_HEX_DIGIT": lambda c: 0x30 <= c <= 0x39 or 0x41 <= c <= 0x46 or 0x61 <= c <= 0x66,
    "ASCII_ALPHA_LOWER": lambda c: 0x61 <= c <= 0x7A,
    "ASCII_ALPHA_UPPER": lambda c: 0x41 <= c <= 0x5A,
    "ASCII_ALPHA": lambda c: 0x41 <= c <= 0x5A or 0x61 <= c <= 0x7A,
    "ASCII_ALPHANUMERIC": lambda c: 0x30 <= c <= 0x39 or 0x41 <= c <= 0x5A or 0x61 <= c <= 0x7A,
    "ASCII": lambda c: c <= 0x7F,
    "ANY": lambda c: True,
    "NEWLINE": lambda c: c in (0x0A, 0x0D),
}


def member(e, cp):
    """Membership from the definition, with plain integer comparisons. None = no requirement."""
    k = e[0]
    if k == "builtin":
        return ASCII[e[1]](cp)
    if k == "range":
        return ord(e[1]) <= cp <= ord(e[2])
    if k == "lit":
        return cp == ord(e[1])
    if k == "ci":
        c = ord(e[1])
        if c > 0x7F:
            return True if cp == c else None  # a non-ASCII literal: only "matches itself" is required
        if cp > 0x7F:
            return None  # the statement covers ASCII input only
        return cp == c or (0x41 <= c <= 0x5A and cp == c + 32) or (0x61 <= c <= 0x7A and cp == c - 32)
    if k == "alt":
        rs = [member(x, cp) for x in e[1]]
        if any(r is True for r in rs):
            return True
        if any(r is None for r in rs):
            return None
        return False
    raise ValueError(e)


B = lambda n: ("builtin", n)  # noqa: E731
BOUNDARY = ["\t", " ", "-", "0", "9", "A", "Z", "[", "\\", "]", "^", "a", "z", "~", "\x7f", "\x80", "\xff", "\u212a", "\ud7ff", "\ue000", "\uffff", "\U00010000", "\U0010ffff"]

QUICK = [
    B("ANY"), B("ASCII_HEX_DIGIT"),
    rng("a", "z"), rng("\ud7ff", "\ue000"),
    ("ci", "k"),
    ("alt", (rng("a", "c"), lit("-"), lit("]"), lit("^"))),
    ("alt", (lit("["), lit("\\"), rng("x", "z"), rng("y", "~"))),
    ("alt", (B("ASCII_DIGIT"), lit("a"), ("ci", "s"))),
    ("alt", (rng("a", "z"), rng("c", "e"), rng("0", "9"), rng("5", "7"))),   # ranges strictly inside earlier ones
]
QUICK_EXTRA_THOROUGH = [rng("Z", "a"), lit("k"), rng("\uffff", "\U00010000"), rng("K", "K"), lit("]"), B("ASCII_ALPHA"), rng("\x7f", "\x80")]


ADJ_WINDOWS = [(0x00, 0x100), (0x2100, 0x2140), (0xFF00, 0x10100), (0x10FFF0, 0x110000)]


def adjacency_family(tier: str):
    """Choices around one base range: a literal or a second range starting/ending 2 below .. 2 above each end of it, in both orders
    (what the optimizer's merged class does with touching, overlapping, contained and adjacent members)."""
    fam = []
    for lo, hi in ((("c", "f"),) if tier == "quick" else (("c", "f"), ("1", "4"), ("X", "]"))):
        base = rng(lo, hi)
        near = sorted({chr(ord(x) + d) for x in (lo, hi) for d in (-2, -1, 0, 1, 2)})
        others = [lit(c) for c in near] + [rng(a, b) for a in near for b in near if a <= b]
        for o in others:
            fam.append(("alt", (base, o)))
            fam.append(("alt", (o, base)))
        for a in near:
            for b in near:
                if a < b:
                    fam.append(("alt", (lit(a), base, lit(b))))
    return fam


def thorough_family():
    fam = [B(n) for n in ASCII] + [e for e in QUICK + QUICK_EXTRA_THOROUGH if e[0] != "builtin"]
    special = set("-[]\\^~&|")
    cased = set("AZazK\u212a")
    for i, a in enumerate(BOUNDARY):
        for j in range(i, len(BOUNDARY)):
            b = BOUNDARY[j]
            if j == i + 1 or ((a in special or b in special or a in cased or b in cased) and j - i <= 4):
                fam.append(rng(a, b))
    for c in "-[]\\^~&|.$(){}*+?#\"' \t\nKkSs\u212a\u017f\u0130\u0131\u00df\u1e9e":
        fam.append(lit(c))
    for c in "kKsSaZ":
        fam.append(("ci", c))
    fam += [
        ("alt", (rng("a", "c"), rng("d", "f"))), ("alt", (rng("a", "d"), rng("c", "f"))), ("alt", (rng("a", "c"), rng("e", "g"))),
        ("alt", (lit("b"), rng("a", "c"))), ("alt", (lit("d"), rng("a", "c"))), ("alt", (lit("`"), rng("a", "c"))),
        ("alt", (lit("]"), lit("^"), lit("-"), lit("\\"), lit("["), lit("&"), lit("~"), lit("|"))),
        ("alt", (lit("^"), lit("a"))), ("alt", (lit("-"), rng("0", "9"))), ("alt", (rng("+", "-"), lit("a"))), ("alt", (rng("\\", "]"), lit("a"))),
        ("alt", (("ci", "k"), lit("x"))), ("alt", (B("ASCII_ALPHA"), lit("_"))), ("alt", (B("NEWLINE"), lit(" "))), ("alt", (lit("\u212a"), lit("a"))),
        ("alt", (rng("\ud7ff", "\ue000"), lit("a"))), ("alt", (rng("\U0010fffe", "\U0010ffff"), lit("\0"))), ("alt", (lit("a"), lit("a"), lit("b"))),
    ]
    seen, out = set(), []
    for e in fam:
        if e not in seen:
            seen.add(e)
            out.append(e)
    return out


def unicode_rule_names():
    from pest.grammar.rules.unicode import UNICODE_RULES

    return sorted(UNICODE_RULES)


def _sweep(payload):
    """One slice of the code space for a list of expressions in the given modes."""
    exprs, lo, hi, props = payload
    from pest import PestParsingError

    stats = {"evaluations": 0, "accepts": 0}
    fails = []
    # unoptimised first for every expression, then optimised (the optimizer rewrites shared built-ins)
    built = {}
    for phase in (("IU", "GU"), ("IO", "GO")):
        for e in exprs:
            g = f"r = {{ {text_of(e)} }}\n"
            interp = modes.build(g, phase[0])
            built[(e, phase[0])] = interp
            built[(e, phase[1])] = modes.Generated(interp.generate())
    for e in exprs:
        per_mode = {}
        for mode in modes.MODES:
            p = built[(e, mode)]
            acc = bytearray(hi - lo)
            parse = p.parse
            for cp in range(lo, hi):
                try:
                    pairs = parse("r", chr(cp))
                    acc[cp - lo] = 1
                except PestParsingError:
                    pass
                except Exception as exc:  # noqa: BLE001
                    acc[cp - lo] = 2
                    if len(fails) < 50:
                        fails.append({"kind": f"exc:{type(exc).__name__}", "mode": mode, "expr": text_of(e), "cp": cp})
            stats["evaluations"] += hi - lo
            per_mode[mode] = acc
        is_prop = e[0] == "builtin" and e[1] in props
        ref = per_mode["IU"]
        wrong: dict = {}
        for mode in modes.MODES:
            acc = per_mode[mode]
            for cp in range(lo, hi):
                got = acc[cp - lo]
                if got == 2:
                    continue
                if is_prop:
                    want = ref[cp - lo]  # Unicode property rules: the four modes must agree
                else:
                    m = member(e, cp)
                    if m is None:
                        continue
                    want = 1 if m else 0
                if mode == "IU":
                    stats["accepts"] += 1 if got else 0
                if got != want:
                    w = wrong.setdefault(mode, [cp, cp, 0, want])
                    w[1] = cp
                    w[2] += 1
        for mode, (first, last, count, want) in wrong.items():
            fails.append({"kind": "accepts" if want == 0 else "rejects", "mode": mode, "expr": text_of(e), "cp": first, "last_cp": last, "count": count})
    return stats, fails


def _escapes(payload):
    """Escapes: every value in the slice, in the digit-count forms given; loaded many rules per grammar (IU)."""
    lo, hi, forms, char_too = payload
    from pest import Parser, PestParsingError

    stats = {"evaluations": 0, "accepts": 0}
    fails = []
    items = []
    for cp in range(lo, hi):
        hx = "%X" % cp
        for nd in forms:
            if nd < len(hx):
                continue
            for digits in {hx.rjust(nd, "0"), hx.lower().rjust(nd, "0")}:
                items.append((cp, "\\u{" + digits + "}"))
        if cp < 256:
            for digits in {"%02X" % cp, "%02x" % cp}:
                items.append((cp, "\\x" + digits))
    for i in range(0, len(items), 2048):
        batch = items[i:i + 2048]
        lines = []
        for j, (cp, s) in enumerate(batch):
            lines.append(f'r{j} = {{ "{s}" ~ EOI }}')
            if char_too:
                lines.append(f"c{j} = {{ '{s}'..'{s}' ~ EOI }}")
        try:
            p = Parser.from_grammar("\n".join(lines), optimizer=None)
        except Exception as exc:  # noqa: BLE001
            # find the culprit(s) one by one
            for j, (cp, s) in enumerate(batch):
                try:
                    Parser.from_grammar(f'r = {{ "{s}" }}', optimizer=None)
                except Exception as exc2:  # noqa: BLE001
                    if len(fails) < 50:
                        fails.append({"kind": f"rejected:{type(exc2).__name__}", "mode": "IU", "expr": s, "cp": cp})
            continue
        for j, (cp, s) in enumerate(batch):
            for name in ((f"r{j}", f"c{j}") if char_too else (f"r{j}",)):
                stats["evaluations"] += 2
                try:
                    p.parse(name, chr(cp))
                    stats["accepts"] += 1
                    ok = True
                except PestParsingError:
                    ok = False
                other = chr(cp ^ 1)
                try:
                    p.parse(name, other)
                    ok2 = False
                except PestParsingError:
                    ok2 = True
                if not (ok and ok2) and len(fails) < 50:
                    fails.append({"kind": "escape-denotes-other-code-point", "mode": "IU", "expr": s + (" (char literal)" if name[0] == "c" else ""), "cp": cp})
    if lo == 0:
        # sequences of escapes: every string of 1-3 pieces (an escape next to a character that would itself form an
        # escape with a preceding backslash must be decoded left to right, once)
        pieces = {"\\n": "\n", "\\r": "\r", "\\t": "\t", "\\\\": "\\", '\\"': '"', "\\'": "'", "\\0": "\0", "n": "n", "r": "r", "t": "t", "0": "0", "x": "x", "u": "u"}
        import itertools as _it

        combos = [c for k in (1, 2, 3) for c in _it.product(pieces, repeat=k)]
        for i in range(0, len(combos), 512):
            batch = combos[i:i + 512]
            g = "\n".join(f'q{j} = {{ "{"".join(c)}" ~ EOI }}' for j, c in enumerate(batch))
            try:
                p = Parser.from_grammar(g, optimizer=None)
            except Exception as exc:  # noqa: BLE001
                fails.append({"kind": f"rejected:{type(exc).__name__}", "mode": "IU", "expr": "escape sequences batch", "cp": 0})
                continue
            for j, c in enumerate(batch):
                want = "".join(pieces[x] for x in c)
                stats["evaluations"] += 2
                try:
                    p.parse(f"q{j}", want)
                    ok = True
                except PestParsingError:
                    ok = False
                other = want[:-1] + chr(ord(want[-1]) ^ 1)
                try:
                    p.parse(f"q{j}", other)
                    ok2 = False
                except PestParsingError:
                    ok2 = True
                if not (ok and ok2) and len(fails) < 50:
                    fails.append({"kind": "escape-sequence-decoded-wrongly", "mode": "IU", "expr": '"' + "".join(c) + '"', "cp": ord(want[0])})
        simple = {"\\n": 10, "\\r": 13, "\\t": 9, "\\\\": 92, '\\"': 34, "\\'": 39, "\\0": 0}
        for s, cp in simple.items():
            for g, rule in ((f'r = {{ "{s}" ~ EOI }}', "string"), (f"r = {{ '{s}'..'{s}' ~ EOI }}", "char")):
                stats["evaluations"] += 1
                try:
                    Parser.from_grammar(g, optimizer=None).parse("r", chr(cp))
                    stats["accepts"] += 1
                except Exception as exc:  # noqa: BLE001
                    fails.append({"kind": f"simple-escape:{type(exc).__name__}", "mode": "IU", "expr": f"{s} in {rule} literal", "cp": cp})
    return stats, fails


def run(tier: str) -> int:
    rep = common.Report("C12", tier, "exploration")
    exprs = list(QUICK) if tier == "quick" else thorough_family()
    props = unicode_rule_names()
    if tier == "quick":
        prop_exprs = [B(n) for n in ("UPPERCASE_LETTER",) if n in props]
    else:
        prop_exprs = [B(n) for n in props]
    for n in props:
        ASCII.setdefault(n, lambda c: None)
    step = N_CP // SLICES
    payloads = []
    all_exprs = exprs + prop_exprs
    group = 5 if tier == "quick" else 8
    for gi in range(0, len(all_exprs), group):
        for lo in range(0, N_CP, step * (4 if tier == "quick" else 2)):
            payloads.append((all_exprs[gi:gi + group], lo, min(N_CP, lo + step * (4 if tier == "quick" else 2)), set(props)))
    adj = adjacency_family(tier)
    for gi in range(0, len(adj), 12):
        for lo, hi in ADJ_WINDOWS:
            payloads.append((adj[gi:gi + 12], lo, hi, set(props)))
    # case-insensitive literals that Unicode case folding would identify (k / Kelvin sign, s / long s, i / dotted I, e-acute pair):
    # built one after the other in ONE process, in both orders, so that anything shared between literals shows
    ci_hist = [("ci", c) for c in ("\u212a", "k", "K", "\u017f", "s", "S", "\u0130", "i", "\u00e9", "\u00c9", "\u00df")]
    for order in (ci_hist, ci_hist[::-1]):
        for lo, hi in ((0x00, 0x180), (0x2100, 0x2140)):
            payloads.append((order, lo, hi, set(props)))
    results = common.parallel_map(_sweep, payloads, fresh=True, order_seed=common.seed())
    forms = (6,) if tier == "quick" else (2, 3, 4, 5, 6)
    esc_payloads = []
    for lo in range(0, N_CP, step):
        esc_payloads.append((lo, lo + step, forms if lo >= 0x3000 or tier == "thorough" else (2, 3, 4, 5, 6), tier == "thorough" or lo < 0x3000 * 2))
    eresults = common.parallel_map(_escapes, esc_payloads, fresh=False, order_seed=common.seed())
    agg = {"evaluations": 0, "accepts": 0}
    fails = []
    for st, fl in results + eresults:
        for k, v in st.items():
            agg[k] += v
        fails.extend(fl)
    # merge per-slice records of the same (expr, mode, kind)
    merged: dict = {}
    for f in fails:
        key = (f["expr"], f["mode"], f["kind"])
        m = merged.setdefault(key, dict(f))
        m["cp"] = min(m["cp"], f["cp"])
        if "last_cp" in f:
            m["last_cp"] = max(m.get("last_cp", 0), f["last_cp"])
            m["count"] = m.get("count", 0) + f["count"] if m is not f and m.get("_seen") else f["count"]
            m["_seen"] = True
    listed = {(w["expr"], w["mode"]): fd for fd in common.open_findings("C12") for w in fd.get("witnesses", [])}
    regress = 0
    for key in sorted(merged, key=lambda k: (len(k[0]), k)):
        m = merged[key]
        m.pop("_seen", None)
        fd = listed.get((m["expr"], m["mode"]))
        if fd is not None:
            rep.known(fd)
            continue
        rep.violation({"family": "code-space" if "\\u{" not in m["expr"] and "\\x" not in m["expr"] else "escapes", **m, "cp_hex": "U+%04X" % m["cp"]})
    for fd in common.fixed_findings("C12"):
        for w in fd.get("witnesses", []):
            regress += 1
            if replay_case(w, quiet=True):
                rep.violation({"family": "fixed-witness", "finding": fd["id"], "kind": "regression", **w})
    rep.coverage = {
        "evaluations": agg["evaluations"],
        "distinct_nontrivial": agg["accepts"],
        "rule": "for every expression X of the family, a one-rule grammar r = { X } is built in all four modes and parse('r', chr(cp)) is called for EVERY code point U+0000..U+10FFFF (surrogates included); "
                "membership is computed from the definition with integer comparisons (ranges inclusive and case sensitive, literals exact, choices = union, ASCII_*/NEWLINE/ANY from pest's book; case-insensitive literals judged on ASCII input only); "
                f"adjacency family: {len(adj)} choices of a base range with a literal or a second range starting/ending within 2 of either end (both orders, and literal|range|literal), judged on the windows {[(hex(a), hex(b)) for a, b in ADJ_WINDOWS]} only; "
                "case-folding family: ^\"x\" for x in {Kelvin sign, k, K, long s, s, S, dotted capital I, i, e-acute, E-acute, sharp s} built in one process in this order and in the reverse order, judged on U+0000-U+017F and U+2100-U+213F "
                "(an ASCII letter literal accepts exactly its two ASCII spellings of ASCII input; a non-ASCII literal must at least accept itself); "
                "built-in Unicode property rules must give the same answer in all four modes. Escapes: every \\xHH (both digit cases) and every \\u{H..} value in the stated digit-count forms, in string and character literals, "
                "must match exactly the intended character (and not its neighbour); every string literal made of 1-3 pieces from {\\n \\r \\t \\\\ \\\" \\' \\0 n r t 0 x u} must decode piecewise. distinct_nontrivial = accepted (expression, code point) points in mode IU",
        "samples": [{"expr": text_of(e)} for e in common.pick_samples(all_exprs, 5)],
        "exhaustive": True,
        "expressions": len(exprs),
        "adjacency_expressions_on_windows": len(adj),
        "unicode_property_rules": len(prop_exprs),
        "code_points": N_CP,
        "modes": list(modes.MODES),
        "escape_forms": {"u_digit_counts": list(forms), "x": "all 256 values, both digit cases"},
        "failing_records": len(merged),
        "fixed_witnesses_replayed": regress,
    }
    rep.assumptions = ["Unicode property rules: only cross-mode agreement is claimed (their absolute correctness rests on the `regex` package)",
                       "case-insensitive literals: exactness on ASCII input only (the statement's scope)"]
    return rep.finish()


def replay_case(case: dict, quiet: bool = False) -> bool:
    """Re-run one (expression text, mode, code point)."""
    from pest import PestParsingError

    g = case.get("grammar") or f"r = {{ {case['expr']} }}\n"
    p = modes.build(g, case["mode"])
    try:
        p.parse("r", chr(case["cp"]))
        got = True
    except PestParsingError:
        got = False
    want = case.get("want")
    if not quiet:
        print(f"  {g.strip()} on U+{case['cp']:04X} in {case['mode']}: accepted={got} wanted={want}")
    return want is not None and got != want
