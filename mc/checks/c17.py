"""C17: the bundled JSON and calculator languages agree with independent references.

JSON: every document of a bounded generator (+ every proper prefix) x both JSON grammars x 4 modes,
against json.loads.  Calculator: every well-formed token string up to N tokens x 2 layouts x the three
bundled implementations (generated parser modules are produced in memory from the current tree and
injected into sys.modules - nothing is written to /repo), against an independent evaluator.
"""

from __future__ import annotations

import importlib
import itertools
import json
import math
import os
import sys
import types

from .. import common, modes

BOUNDS = {"quick": {"json_pair_subset": 5, "json_top_subset": 7, "calc_tokens": 6}, "thorough": {"json_pair_subset": 9, "json_top_subset": 14, "calc_tokens": 7}}

SCALARS = ["0", "-0", "10", "1.5", "1e2", "1E+2", "-1.25e-3", '""', '"a"', '"\\n"', '"é"', '"\\\\\\""', '"\\/"', '"\x7f\x85\u2028"', '"\\u00e9\\uD83D\\uDE00"', "true", "false", "null"]
S4 = ["0", '"a"', "true", "-1.25e-3"]


# ----------------------------------------------------------------------------- JSON documents (token lists)

def level(prev, pair_subset):
    out = [[t] for t in SCALARS] + [["[", "]"], ["{", "}"]]
    for a in prev:
        out.append(["["] + a + ["]"])
        out.append(["{", '"k"', ":"] + a + ["}"])
    sub = prev[::max(1, len(prev) // pair_subset)][:pair_subset]
    for a in sub:
        for b in sub:
            out.append(["["] + a + [","] + b + ["]"])
            out.append(["{", '"k"', ":"] + a + [",", '"é\\t"', ":"] + b + ["}"])
    # dedupe
    seen, res = set(), []
    for d in out:
        k = tuple(d)
        if k not in seen:
            seen.add(k)
            res.append(d)
    return res


def json_docs(tier):
    b = BOUNDS[tier]
    l0 = [[t] for t in SCALARS]
    l1 = level(l0, b["json_pair_subset"])
    l2 = level(l1, b["json_pair_subset"])
    top = []
    for a in l2:
        top.append(["["] + a + ["]"])
        top.append(["{", '"key"', ":"] + a + ["}"])
    sub = l2[::max(1, len(l2) // b["json_top_subset"])][:b["json_top_subset"]]
    for a in sub:
        for c in sub:
            top.append(["["] + a + [","] + c + ["]"])
            top.append(["{", '"a"', ":"] + a + [",", '"b"', ":"] + c + ["}"])
    top += [["[", "]"], ["{", "}"]]
    # string contents: every string of up to 3 (thorough 4) pieces - plain, blank, escapes, non-ASCII - as an array element and as key and value
    pieces = ["a", " ", "\\n", '\\"', "\\\\", "é", "\\u00e9", "/", "\\/", "\\t", "0"]
    for k in range(0, (3 if tier == "quick" else 4) + 1):
        for t in itertools.product(pieces, repeat=k):
            lit = '"' + "".join(t) + '"'
            top.append(["[", lit, "]"])
            if k <= 2:
                top.append(["{", lit, ":", lit, "}"])
                top.append(["[", lit, ",", lit, "]"])
    return top


def layouts(toks):
    yield "".join(toks)
    yield " ".join(toks)
    yield " " + "".join(toks)          # leading whitespace is allowed, trailing is not written
    for g in range(len(toks) - 1):
        yield "".join(toks[:g + 1]) + "\n\t" + "".join(toks[g + 1:])
    if len(toks) <= 7:
        # every whitespace character RFC 8259 allows (blank, \t, \n, \r), one kind at every gap, and a mixture
        for sep in ("\r", "\r\n", "\t", "\n", " \r\n\t"):
            yield sep.join(toks)


# ----------------------------------------------------------------------------- JSON mirrors

class Mismatch(Exception):
    pass


def mirror_E(pairs, text, value):
    """examples/json/json.pest: json silent; top-level pairs = [object|array, EOI]."""
    if len(pairs) != 2 or pairs[1].name != "EOI":
        raise Mismatch(f"top level: {[p.name for p in pairs]}")
    _mirror_E(pairs[0], value)


def _mirror_E(p, v):
    n = p.name
    if isinstance(v, dict):
        if n != "object" or len(p.children) != len(v):
            raise Mismatch(f"object vs {n} with {len(p.children)} children")
        for c, (k, val) in zip(p.children, v.items()):
            if c.name != "pair" or len(c.children) != 2 or c.children[0].name != "string":
                raise Mismatch("pair shape")
            if json.loads(c.children[0].text) != k:
                raise Mismatch(f"key {c.children[0].text!r} vs {k!r}")
            _mirror_E(c.children[1], val)
    elif isinstance(v, list):
        if n != "array" or len(p.children) != len(v):
            raise Mismatch(f"array vs {n} with {len(p.children)} children")
        for c, val in zip(p.children, v):
            _mirror_E(c, val)
    elif isinstance(v, bool):
        if n != "boolean" or p.text != ("true" if v else "false"):
            raise Mismatch(f"boolean vs {n} {p.text!r}")
    elif v is None:
        if n != "null":
            raise Mismatch(f"null vs {n}")
    elif isinstance(v, str):
        if n != "string" or json.loads(p.text) != v or p.text[0] != '"' or p.text[-1] != '"':
            raise Mismatch(f"string {p.text!r} vs {v!r}")
    else:
        if n != "number" or float(p.text) != float(v):
            raise Mismatch(f"number {p.text!r} vs {v!r}")


def mirror_T(pairs, text, value):
    """tests/grammars/json.pest: json > [value, EOI]; value non-silent."""
    if len(pairs) != 1 or pairs[0].name != "json":
        raise Mismatch(f"top level: {[p.name for p in pairs]}")
    kids = pairs[0].children
    if len(kids) != 2 or kids[0].name != "value" or kids[1].name != "EOI":
        raise Mismatch(f"json children: {[p.name for p in kids]}")
    _mirror_T(kids[0], value)


def _mirror_T(p, v):
    if p.name != "value" or len(p.children) != 1:
        raise Mismatch(f"expected a value pair, got {p.name}")
    q = p.children[0]
    n = q.name
    if isinstance(v, dict):
        if n != "object" or len(q.children) != len(v):
            raise Mismatch(f"object vs {n}")
        for c, (k, val) in zip(q.children, v.items()):
            if c.name != "pair" or len(c.children) != 2 or c.children[0].name != "string":
                raise Mismatch("pair shape")
            if json.loads(c.children[0].text) != k:
                raise Mismatch(f"key {c.children[0].text!r} vs {k!r}")
            _mirror_T(c.children[1], val)
    elif isinstance(v, list):
        if n != "array" or len(q.children) != len(v):
            raise Mismatch(f"array vs {n}")
        for c, val in zip(q.children, v):
            _mirror_T(c, val)
    elif isinstance(v, bool):
        if n != "bool" or q.text != ("true" if v else "false"):
            raise Mismatch(f"bool vs {n}")
    elif v is None:
        if n != "null":
            raise Mismatch(f"null vs {n}")
    elif isinstance(v, str):
        if n != "string" or json.loads(q.text) != v:
            raise Mismatch(f"string {q.text!r} vs {v!r}")
    else:
        if n != "number" or float(q.text) != float(v):
            raise Mismatch(f"number {q.text!r} vs {v!r}")


JSON_GRAMMARS = [("examples/json/json.pest", "json", mirror_E), ("tests/grammars/json.pest", "json", mirror_T)]


def _json_chunk(payload):
    tier, lo, hi = payload
    from pest import PestParsingError

    docs = json_docs(tier)[lo:hi]
    stats = {"evaluations": 0, "docs": 0, "prefixes": 0}
    fails = []
    parsers = {}
    for gpath, start, mirror in JSON_GRAMMARS:
        gtext = open(os.path.join(common.REPO, gpath), encoding="utf-8").read()
        for mode in ("IU", "GU"):
            parsers[(gpath, mode)] = modes.build(gtext, mode)
    for gpath, start, mirror in JSON_GRAMMARS:
        gtext = open(os.path.join(common.REPO, gpath), encoding="utf-8").read()
        for mode in ("IO", "GO"):
            parsers[(gpath, mode)] = modes.build(gtext, mode)
    for toks in docs:
        for li, text in enumerate(layouts(toks)):
            value = json.loads(text)
            stats["docs"] += 1
            for gpath, start, mirror in JSON_GRAMMARS:
                for mode in modes.MODES:
                    p = parsers[(gpath, mode)]
                    stats["evaluations"] += 1
                    try:
                        pairs = p.parse(start, text)
                        mirror(pairs, text, value)
                        # the same str object once more on the same parser object (a document is often parsed again; whatever a
                        # parser remembers about "this text" must not change the answer)
                        again = p.parse(start, text)
                        stats["evaluations"] += 1
                        if modes.tree_of(again) != modes.tree_of(pairs):
                            fails.append({"kind": "second-parse-of-the-same-text-differs", "grammar": gpath, "mode": mode, "input": text})
                    except PestParsingError:
                        fails.append({"kind": "rejects-valid-json", "grammar": gpath, "mode": mode, "input": text})
                    except Mismatch as exc:
                        fails.append({"kind": "tree-mismatch", "grammar": gpath, "mode": mode, "input": text, "detail": str(exc)})
                    except Exception as exc:  # noqa: BLE001
                        fails.append({"kind": f"exc:{type(exc).__name__}", "grammar": gpath, "mode": mode, "input": text})
                    if li <= 1:
                        # every proper prefix of the document (written without trailing whitespace) is rejected
                        for k in range(len(text)):
                            stats["evaluations"] += 1
                            stats["prefixes"] += 1
                            try:
                                p.parse(start, text[:k])
                                fails.append({"kind": "accepts-proper-prefix", "grammar": gpath, "mode": mode, "input": text[:k], "of": text})
                            except PestParsingError:
                                pass
                            except Exception as exc:  # noqa: BLE001
                                fails.append({"kind": f"exc:{type(exc).__name__}", "grammar": gpath, "mode": mode, "input": text[:k]})
    return stats, fails[:200], len(fails)


# ----------------------------------------------------------------------------- calculator

OPERANDS = ["0", "1", "2", "3", "x"]
INFIX = ["+", "-", "*", "/", "^"]
ENV = {"x": 5}
LIMIT = 10 ** 6


def calc_strings(n):
    """All well-formed token lists with at most n tokens: E := -* T !* (I -* T !*)* ; T := operand | ( E )."""
    memo: dict = {}

    def exprs(k):
        """Token lists of exactly k tokens forming an E."""
        if k in memo:
            return memo[k]
        res = []
        if k >= 1:
            for first in operand_units(k):
                res.append(first)
            for a in range(1, k - 1):
                for left in exprs(a):
                    for op in INFIX:
                        for right in operand_units(k - a - 1):
                            res.append(left + [op] + right)
        memo[k] = res
        return res

    umemo: dict = {}

    def operand_units(k):
        """-* T !* with exactly k tokens."""
        if k in umemo:
            return umemo[k]
        umemo[k] = []  # recursion guard (parenthesised sub-expressions are strictly shorter)
        res = []
        for pre in range(0, k):
            for post in range(0, k - pre):
                core = k - pre - post
                if core == 1:
                    for o in OPERANDS:
                        res.append(["-"] * pre + [o] + ["!"] * post)
                elif core >= 3:
                    for inner in exprs(core - 2):
                        res.append(["-"] * pre + ["("] + inner + [")"] + ["!"] * post)
        umemo[k] = res
        return res

    out = []
    for k in range(1, n + 1):
        out.extend(exprs(k))
    return out


class Bad(Exception):
    pass


def _fact(v):
    if isinstance(v, float) or v < 0 or v > 12:
        raise Bad
    return math.factorial(v)


def _apply(op, a, b):
    try:
        if op == "+":
            r = a + b
        elif op == "-":
            r = a - b
        elif op == "*":
            r = a * b
        elif op == "/":
            if b == 0:
                raise Bad
            r = a // b
        else:
            if abs(a) > 50 or abs(b) > 12:
                raise Bad
            if a == 0 and b < 0:
                raise Bad
            r = a ** b
    except (OverflowError, ZeroDivisionError):
        raise Bad from None
    if isinstance(r, complex) or (isinstance(r, float) and (math.isnan(r) or math.isinf(r))) or abs(r) > LIMIT:
        raise Bad
    return r


def all_values(toks):
    """Values of ALL bracketings of the token list (parenthesised groups are atomic); raises Bad if any fails."""
    # split into units
    units = []
    i = 0
    while i < len(toks):
        t = toks[i]
        if t == "(":
            depth, j = 1, i + 1
            while depth:
                depth += {"(": 1, ")": -1}.get(toks[j], 0)
                j += 1
            units.append(("grp", toks[i + 1:j - 1]))
            i = j
        else:
            units.append(("tok", t))
            i += 1
    n = len(units)
    memo: dict = {}

    def vals(a, b):
        if (a, b) in memo:
            return memo[(a, b)]
        res = set()
        if b - a == 1:
            k, v = units[a]
            if k == "grp":
                res |= all_values(v)
            elif v in OPERANDS:
                res.add(ENV[v] if v == "x" else int(v))
        else:
            if units[a] == ("tok", "-") and (a == 0 or units[a - 1][0] == "tok" and units[a - 1][1] in INFIX + ["-"]) or (units[a] == ("tok", "-") and a == 0):
                pass
            if units[a] == ("tok", "-"):
                for v in vals(a + 1, b):
                    res.add(-v)
            if units[b - 1] == ("tok", "!"):
                for v in vals(a, b - 1):
                    res.add(_fact(v))
            for m in range(a + 1, b - 1):
                if units[m][0] == "tok" and units[m][1] in INFIX:
                    ls, rs = vals(a, m), vals(m + 1, b)
                    for x in ls:
                        for y in rs:
                            res.add(_apply(units[m][1], x, y))
        memo[(a, b)] = res
        return res

    return vals(0, n)


def reference_value(toks):
    """Independent precedence-table evaluator: ! > unary - > ^ (right) > * / (left) > + - (left)."""
    pos = [0]

    def peek():
        return toks[pos[0]] if pos[0] < len(toks) else None

    def primary():
        t = toks[pos[0]]
        pos[0] += 1
        if t == "(":
            v = add_sub()
            pos[0] += 1  # ')'
            return v
        return ENV[t] if t == "x" else int(t)

    def postfix():
        v = primary()
        while peek() == "!":
            pos[0] += 1
            v = _fact(v)
        return v

    def prefix():
        if peek() == "-":
            pos[0] += 1
            return -prefix()
        return postfix()

    def power():
        base = prefix()
        if peek() == "^":
            pos[0] += 1
            return _apply("^", base, power())
        return base

    def mul_div():
        v = power()
        while peek() in ("*", "/"):
            op = toks[pos[0]]
            pos[0] += 1
            v = _apply(op, v, power())
        return v

    def add_sub():
        v = mul_div()
        while peek() in ("+", "-"):
            op = toks[pos[0]]
            pos[0] += 1
            v = _apply(op, v, mul_div())
        return v

    v = add_sub()
    if pos[0] != len(toks):
        raise common.HarnessError("reference evaluator did not consume the expression")
    return v


def load_calculators(optimised: bool):
    """Generate the two parser modules in memory and import the three implementations against them."""
    from pest import Parser

    cdir = os.path.join(common.REPO, "examples", "calculator")
    for name in [m for m in sys.modules if m.startswith("examples.calculator")]:
        del sys.modules[name]
    import examples  # noqa: F401  (package at the repository root)
    import examples.calculator._ast  # noqa: F401

    for fname, modname in (("calculator.pest", "examples.calculator.parser"), ("grammar_encoded_prec.pest", "examples.calculator.grammar_encoded_prec_parser")):
        g = open(os.path.join(cdir, fname), encoding="utf-8").read()
        p = Parser.from_grammar(g) if optimised else Parser.from_grammar(g, optimizer=None)
        mod = types.ModuleType(modname)
        mod.__package__ = "examples.calculator"
        exec(compile(p.generate(), modname.replace(".", "/") + ".py", "exec"), mod.__dict__)  # noqa: S102
        sys.modules[modname] = mod
        setattr(sys.modules["examples.calculator"], modname.rsplit(".", 1)[1], mod)
    climber = importlib.import_module("examples.calculator.prec_climber")
    pratt = importlib.import_module("examples.calculator.pratt")
    enc = importlib.import_module("examples.calculator.grammar_encoded_prec")
    parser_mod = sys.modules["examples.calculator.parser"]
    enc_mod = sys.modules["examples.calculator.grammar_encoded_prec_parser"]
    pratt_parser = pratt.CalculatorParser()
    return {
        "precedence-climbing": lambda s: climber.parse_program(parser_mod.parse(parser_mod.Rule.PROGRAM, s)),
        "pratt": lambda s: pratt_parser.parse(s),
        "grammar-encoded": lambda s: enc.parse_program(enc_mod.parse(enc_mod.Rule.PROGRAM, s)),
    }


def _calc_chunk(payload):
    n, part, nparts = payload
    stats = {"evaluations": 0, "expressions": 0, "kept": 0}
    fails = []
    strings = calc_strings(n)[part::nparts]
    keep = []
    for toks in strings:
        stats["expressions"] += 1
        try:
            all_values(toks)
            want = reference_value(toks)
        except Bad:
            continue
        keep.append((toks, want))
    stats["kept"] = len(keep)
    for optimised in (False, True):
        impls = load_calculators(optimised)
        for toks, want in keep:
            texts = ["".join(toks), " ".join(toks)]
            if len(toks) <= 4:
                # every whitespace character the calculator grammars define (blank, tab, NEWLINE = \n | \r\n | \r), one kind at every gap
                texts += [sep.join(toks) for sep in ("\t", "\n", "\r\n", "\r", " \n\t ")] + ["\n" + "".join(toks) + "\r\n"]
            for text in texts:
                for name, f in impls.items():
                    stats["evaluations"] += 1
                    try:
                        got = f(text).evaluate(dict(ENV))
                    except Exception as exc:  # noqa: BLE001
                        fails.append({"kind": f"exc:{type(exc).__name__}", "impl": name, "generated_from": "optimised" if optimised else "unoptimised", "input": text, "expected": want, "got": str(exc)[:80]})
                        continue
                    if got != want:
                        fails.append({"kind": "value", "impl": name, "generated_from": "optimised" if optimised else "unoptimised", "input": text, "expected": want, "got": got})
    fails.sort(key=lambda c: (len(c["input"]), c["input"]))
    return stats, fails[:200], len(fails)


def run(tier: str) -> int:
    rep = common.Report("C17", tier, "exploration")
    b = BOUNDS[tier]
    ndocs = len(json_docs(tier))
    step = max(1, -(-ndocs // (common.workers() * 3)))
    jp = [(tier, lo, min(ndocs, lo + step)) for lo in range(0, ndocs, step)]
    jres = common.parallel_map(_json_chunk, jp, fresh=True, order_seed=common.seed())
    nparts = common.workers() * 2
    cres = common.parallel_map(_calc_chunk, [(b["calc_tokens"], i, nparts) for i in range(nparts)], fresh=True, order_seed=common.seed())
    agg: dict = {}
    fails, total = [], 0
    for st, fl, tot in jres + cres:
        for k, v in st.items():
            agg[k] = agg.get(k, 0) + v
        fails.extend(fl)
        total += tot
    listed = {}
    for fd in common.open_findings("C17"):
        for w in fd.get("witnesses", []):
            listed[(w.get("impl") or w.get("grammar"), w["input"])] = fd
    fails.sort(key=lambda c: (len(c["input"]), c["input"], c.get("impl", c.get("grammar", ""))))
    seen = set()
    for c in fails:
        fd = listed.get((c.get("impl") or c.get("grammar"), c["input"]))
        if fd is not None:
            rep.known(fd)
            continue
        sym = (c["kind"], c.get("impl", c.get("grammar")))
        if sym in seen and len(rep.violations) >= 12:
            rep.violations.append(c)
        else:
            seen.add(sym)
            rep.violation({"family": "calculator" if "impl" in c else "json", **c})
    regress = 0
    for fd in common.fixed_findings("C17"):
        for w in fd.get("witnesses", []):
            regress += 1
            if replay_case(w, quiet=True):
                rep.violation({"family": "fixed-witness", "finding": fd["id"], "kind": "regression", **w})
    rep.coverage = {
        "evaluations": agg.get("evaluations", 0),
        "distinct_nontrivial": agg.get("docs", 0) + agg.get("kept", 0),
        "rule": "JSON: all documents of a bounded generator (top level array or object, three nesting levels, width <= 2, scalars "
                f"{SCALARS}) plus every string literal of up to 3 (thorough 4) pieces from {{a, blank, \\n, \\\", \\\\, é, \\u00e9, /, \\/, \\t, 0}} as array element, and up to 2 pieces as key and value and as two elements, in the layouts: no whitespace, one space at every gap, leading space, each single gap set to newline+tab, and (documents of up to 7 tokens) every gap set to \\r, \\r\\n, \\t, \\n and a mixture; both bundled JSON grammars x four modes; the tree must mirror json.loads, and parsing the same str object a second time on the same parser must give the same tree "
                "(nesting, member order, float(number text) == value, json.loads(string pair text) == value) and, for the first two layouts, every proper prefix must be rejected. "
                "Calculator: every well-formed token string -* T !* (op -* T !*)* with T an operand from {0,1,2,3,x} or a parenthesised expression, up to N tokens, in two layouts (up to 4 tokens: also every gap set to tab, \\n, \\r\\n, \\r, a mixture, and line breaks around the expression); an expression is kept only if EVERY bracketing of it "
                "evaluates without error and within 1e6 under an independent evaluator (so any tree an implementation builds is safe to evaluate); the three implementations, with parser modules generated in memory from the optimised and from the unoptimised grammar, "
                "must return the value of an independent recursive-descent evaluator of the documented table (! > unary - > ^ right > * / left > + - left). distinct_nontrivial = documents + kept expressions",
        "samples": [{"json": '{"k":[1.5,{"k":"\\n"}]}'}, {"calculator": "-2^2!*3"}],
        "exhaustive": True,
        "bounds": b,
        "json_documents_with_layouts": agg.get("docs", 0),
        "json_prefixes": agg.get("prefixes", 0),
        "calculator_expressions_generated": agg.get("expressions", 0),
        "calculator_expressions_kept": agg.get("kept", 0),
        "failing_cases": total,
        "fixed_witnesses_replayed": regress,
    }
    rep.assumptions = ["json.loads and Python arithmetic are the independent references", "x = 5; factorial arguments limited to 0..12, exponents to |e| <= 12 (larger ones are filtered out, not mis-judged)"]
    return rep.finish()


def replay_case(case: dict, quiet: bool = False) -> bool:
    if "impl" in case:
        toks = [c for c in case["input"] if c != " "]
        want = reference_value(toks)
        impls = load_calculators(case.get("generated_from", "optimised") == "optimised")
        try:
            got = impls[case["impl"]](case["input"]).evaluate(dict(ENV))
        except Exception as exc:  # noqa: BLE001
            got = f"raised {type(exc).__name__}"
        if not quiet:
            print(f"  {case['impl']}: {case['input']!r} -> {got!r}, reference {want!r}")
        return got != want
    from pest import PestParsingError

    gpath, start, mirror = next(g for g in JSON_GRAMMARS if g[0] == case["grammar"])
    p = modes.build(open(os.path.join(common.REPO, gpath), encoding="utf-8").read(), case["mode"])
    try:
        pairs = p.parse(start, case["input"])
    except PestParsingError:
        ok = False
    else:
        ok = True
    try:
        value = json.loads(case["input"])
        valid = True
    except ValueError:
        valid = False
    if not quiet:
        print(f"  valid JSON: {valid}; accepted: {ok}")
    if valid and ok:
        try:
            mirror(pairs, case["input"], value)
        except Mismatch:
            return True
        return False
    return valid != ok
