"""C03: core PEG operators follow pest's matching semantics (interpreter, unoptimised).

Every expression up to n nodes over the core terminals/operators as the body of a normal and of
a silent start rule, against every input up to length L, judged by the reference model.
"""

from __future__ import annotations

from .. import common, engine, families, modes
from . import _grammar_check as gc

BOUNDS = {
    # list of (max size n, exact?, L, with silent start rule)
    "quick": [(4, False, 4, True), (5, True, 3, False)],
    "thorough": [(5, False, 5, True), (6, True, 3, False)],
}


class C03(engine.Check):
    prop = "C03"
    modes = ("IU",)
    need_model = True

    def judge(self, spec, tab, model_obs, out):
        t = tab.get("IU")
        if t is None:
            return
        for key, mo in model_obs.items():
            obs = t[key]
            if obs[0] == "timeout" and mo[0] == "unspec" and "matched empty" in str(mo[1]):
                continue  # a repetition over something that matched empty: outside the domain of the property (it need not terminate)
            if obs[0] in ("exc", "timeout"):
                self.fail(out, spec, f"exc:{obs[1]}" if obs[0] == "exc" else "timeout", "IU", *key, gc.show(mo), gc.show(obs))
            elif not modes.same_outcome_as_model(obs, mo):
                kind = "tree" if (mo[0] == "ok" and obs[0] == "ok") else ("rejects" if mo[0] == "ok" else "accepts")
                self.fail(out, spec, kind, "IU", *key, gc.show(mo), gc.show(obs))


COUNTS = {"quick": (3, 5), "thorough": (4, 6)}   # (largest count, L)


def count_forms(top: int):
    """Every well-formed bound: {m} {m,} {,n} {m,n} with 1 <= m (0 allowed as a lower bound) and n <= top."""
    out = [("exact", m) for m in range(1, top + 1)] + [("min", m) for m in range(0, top + 1)] + [("max", n) for n in range(1, top + 1)]
    out += [("minmax", m, n) for n in range(1, top + 1) for m in range(0, n + 1)]
    return out


def count_specs(tier: str):
    """Bounded repetitions over every non-nullable terminal, (n ~ \"b\") and (\"ab\" | \"a\") (thorough: every non-nullable operand of <= 2 nodes), alone and followed by "a" / EOI / an abandoning alternative."""
    from .. import gast
    top, L = COUNTS[tier]
    env = gast.Env(families.HELPERS)
    ins = families.inputs(families.SIGMA_CORE, L)
    operands = [e for e in families.core_exprs(1) if not env.nullable(e)]
    operands += [("seq", (("ref", "n"), ("str", "b"))), ("alt", (("str", "ab"), ("str", "a")))]
    if tier == "thorough":
        operands = [e for e in families.core_exprs(2) if not env.nullable(e)] + operands[-2:]
    out = []
    for e in operands:
        rules_starts = []
        for form in count_forms(top):
            rep = (form[0], e) + tuple(form[1:])
            for ctx, body in (("alone", rep), ("then_a", ("seq", (rep, ("str", "a")))), ("then_eoi", ("seq", (rep, ("ref", "EOI")))),
                              ("abandoned", ("alt", (("seq", (rep, ("str", "b"))), ("star", ("ref", "ANY")))))):
                rules_starts.append(body)
        # one grammar per operand: every form/context is its own start rule
        rules = families.HELPERS + tuple((f"r{k}", "", b) for k, b in enumerate(rules_starts))
        for lo in range(0, len(rules_starts), 40):
            chunk = tuple(f"r{k}" for k in range(lo, min(lo + 40, len(rules_starts))))
            sp = engine.Spec(rules, chunk, ins, "zero", f"counts(top={top},L={L})")
            out.append(sp)
    return out


def specs(tier: str):
    out = count_specs(tier) + [sp for sp in families.extra_specs("zero", tier) if sp.family.startswith(("newline(none)", "empty-ranges", "postfix-chains"))] + families.metachar_specs("zero", tier) + families.recursive_specs("zero", tier) + families.ctx3_specs("zero", tier, families.T_CORE, ("none",), "abA", 3 if tier == "quick" else 4)
    for n, exact, L, silent in BOUNDS[tier]:
        ins = families.inputs(families.SIGMA_CORE, L)
        for body in families.core_exprs(n, exact=exact):
            rules = families.HELPERS + (("r", "", body),) + ((("q", "_", body),) if silent else ())
            out.append(engine.Spec(rules, ("r", "q") if silent else ("r",), ins, "zero", f"core(n{'=' if exact else '<='}{n},L={L})"))
    return out


def run(tier: str) -> int:
    return gc.run_model_check(C03(), specs(tier), tier, "model_checking",
                              bounds=[{"n": n, "exact_size": ex, "L": L, "silent_start_variant": s, "alphabet": families.SIGMA_CORE} for n, ex, L, s in BOUNDS[tier]],
                              rule="every expression with <= n nodes over terminals {\"a\",\"b\",\"ab\",\"\" (the empty literal),^\"a\",'a'..'b',ANY,EOI,SOI,ASCII_HEX_DIGIT (a built-in made of several ranges),n,s} (n = {\"a\"}, s = _{ n ~ \"b\" }), "
                                   "unary operators ( ) ? * + {2} {1,} {,2} {1,2} & ! and binary ~ |, filtered for well-formedness (no repetition over a nullable operand), "
                                   "as the body of a normal start rule r and a silent start rule q, x every string over {a,b,A} up to length L, in mode IU, against the reference model; "
                                   "plus every expression with <= 2 nodes over {NEWLINE, \"a\", \"\\n\", ANY} on every string over {a, \\r, \\n} up to length 4; "
                                   + families.RECURSIVE_RULE_TEXT[2:] + "; " + "plus three contexts deep: c1(c2(c3(terminal))) for every core terminal and every triple of eleven core contexts (expressions of 8-15 nodes); plus empty (reversed) ranges under every operator; plus literals made of regular-expression metacharacters; "
                                   f"plus the counts family: every bound {{m}} {{m,}} {{,n}} {{m,n}} up to {COUNTS[tier][0]} over every non-nullable terminal, (n ~ \"b\") and (\"ab\" | \"a\") (thorough: every non-nullable operand of <= 2 nodes), alone / followed by \"a\" / followed by EOI / in an abandoned alternative, inputs up to length {COUNTS[tier][1]}; "
                                   "a case is non-trivial when the reference run backtracked at least once or returned at least one pair")


def replay_case(case: dict) -> bool:
    return gc.replay_model_case(case)
