"""C03: core PEG operators follow pest's matching semantics (interpreter, unoptimised).

Every expression up to n nodes over the core terminals/operators as the body of a normal and of
a silent start rule, against every input up to length L, judged by the reference model.
"""

from __future__ import annotations

from .. import common, engine, families, modes
from . import _grammar_check as gc

BOUNDS = {
    # list of (max size n, exact?, L, with silent start rule)
    "quick": [(4, False, 4, True), (5, True, 3, False)],
    "thorough": [(5, False, 5, True), (6, True, 3, False)],
}


class C03(engine.Check):
    prop = "C03"
    modes = ("IU",)
    need_model = True

    def judge(self, spec, tab, model_obs, out):
        t = tab.get("IU")
        if t is None:
            return
        for key, mo in model_obs.items():
            obs = t[key]
            if obs[0] in ("exc", "timeout"):
                self.fail(out, spec, f"exc:{obs[1]}" if obs[0] == "exc" else "timeout", "IU", *key, gc.show(mo), gc.show(obs))
            elif not modes.same_outcome_as_model(obs, mo):
                kind = "tree" if (mo[0] == "ok" and obs[0] == "ok") else ("rejects" if mo[0] == "ok" else "accepts")
                self.fail(out, spec, kind, "IU", *key, gc.show(mo), gc.show(obs))


def specs(tier: str):
    out = []
    for n, exact, L, silent in BOUNDS[tier]:
        ins = families.inputs(families.SIGMA_CORE, L)
        for body in families.core_exprs(n, exact=exact):
            rules = families.HELPERS + (("r", "", body),) + ((("q", "_", body),) if silent else ())
            out.append(engine.Spec(rules, ("r", "q") if silent else ("r",), ins, "zero", f"core(n{'=' if exact else '<='}{n},L={L})"))
    return out


def run(tier: str) -> int:
    return gc.run_model_check(C03(), specs(tier), tier, "model_checking",
                              bounds=[{"n": n, "exact_size": ex, "L": L, "silent_start_variant": s, "alphabet": families.SIGMA_CORE} for n, ex, L, s in BOUNDS[tier]],
                              rule="every expression with <= n nodes over terminals {\"a\",\"b\",\"ab\",^\"a\",'a'..'b',ANY,EOI,SOI,ASCII_HEX_DIGIT (a built-in made of several ranges),n,s} (n = {\"a\"}, s = _{ n ~ \"b\" }), "
                                   "unary operators ( ) ? * + {2} {1,} {,2} {1,2} & ! and binary ~ |, filtered for well-formedness (no repetition over a nullable operand), "
                                   "as the body of a normal start rule r and a silent start rule q, x every string over {a,b,A} up to length L, in mode IU, against the reference model; "
                                   "a case is non-trivial when the reference run backtracked at least once or returned at least one pair")


def replay_case(case: dict) -> bool:
    return gc.replay_model_case(case)
