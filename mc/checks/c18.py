"""C18: PrattParser honours declared precedence and associativity.

All operator tables (<= 2 infix with both associativities, optional prefix and postfix, precedences
from {1,2,3}) x all well-formed token streams up to N tokens.  Two oracles:
 (1) an independent transcription of pest's PrattParser binding-power algorithm (nud/led/lbp);
 (2) brute force, independent of any parsing algorithm: all trees over the stream that satisfy the
     statement's local constraints; where exactly one survives it must be the implementation's.
"""

from __future__ import annotations

import itertools

from .. import common

BOUNDS = {"quick": 6, "thorough": 8}


# ----------------------------------------------------------------------------- space

def tables():
    out = []
    infix_cfgs = [()]
    for p in (1, 2, 3):
        for a in ("L", "R"):
            infix_cfgs.append((("i", p, a),))
    for p1 in (1, 2, 3):
        for a1 in ("L", "R"):
            for p2 in (1, 2, 3):
                for a2 in ("L", "R"):
                    infix_cfgs.append((("i", p1, a1), ("j", p2, a2)))
    for inf in infix_cfgs:
        for pre in (None, 1, 2, 3):
            for post in (None, 1, 2, 3):
                out.append({"infix": {n: (p, a) for n, p, a in inf}, "prefix": pre, "postfix": post})
    return out


def streams(table, n):
    """All well-formed streams (lists of token kinds) with at most n tokens."""
    pre = ["p"] if table["prefix"] is not None else []
    post = ["q"] if table["postfix"] is not None else []
    inf = sorted(table["infix"])
    operands = []
    for a in range(0, n):
        for b in range(0, n - a):
            if (a and not pre) or (b and not post):
                continue
            operands.append(["p"] * a + ["x"] + ["q"] * b)
    out = []

    def extend(cur):
        out.append(cur)
        for op in inf:
            for o in operands:
                if len(cur) + 1 + len(o) <= n:
                    extend(cur + [op] + o)
    for o in operands:
        if len(o) <= n:
            extend(list(o))
    return out


# ----------------------------------------------------------------------------- oracle 1: pest's algorithm

def pest_pratt(table, toks):
    """Transcription of pest::pratt_parser (nud / led / lbp) on precedences as declared."""
    pos = [0]

    def prec_of(t):
        if t in table["infix"]:
            return table["infix"][t][0]
        if t == "p":
            return table["prefix"]
        if t == "q":
            return table["postfix"]
        return None

    def lbp():
        if pos[0] >= len(toks):
            return 0
        t = toks[pos[0]]
        if t == "x" or t == "p":
            raise ValueError("expected operator")
        return prec_of(t)

    def nud():
        t = toks[pos[0]]
        pos[0] += 1
        if t == "p":
            rhs = expr(table["prefix"] - 1)
            return ("pre", rhs)
        if t == "x":
            return "x"
        raise ValueError("expected prefix or primary")

    def led(lhs):
        t = toks[pos[0]]
        pos[0] += 1
        if t in table["infix"]:
            p, a = table["infix"][t]
            rhs = expr(p if a == "L" else p - 1)
            return (t, lhs, rhs)
        if t == "q":
            return ("post", lhs)
        raise ValueError("expected infix or postfix")

    def expr(rbp):
        lhs = nud()
        while rbp < lbp():
            lhs = led(lhs)
        return lhs

    r = expr(0)
    return r, pos[0]


# ----------------------------------------------------------------------------- oracle 2: brute force over trees

def all_trees(toks):
    """All trees whose in-order traversal is toks."""
    n = len(toks)
    memo: dict = {}

    def build(i, j):
        if (i, j) in memo:
            return memo[(i, j)]
        res = []
        if j - i == 1 and toks[i] == "x":
            res.append("x")
        if j - i >= 2:
            if toks[i] == "p":
                res.extend(("pre", t) for t in build(i + 1, j))
            if toks[j - 1] == "q":
                res.extend(("post", t) for t in build(i, j - 1))
            for k in range(i + 1, j - 1):
                if toks[k] in ("i", "j"):
                    for lt in build(i, k):
                        for rt in build(k + 1, j):
                            res.append((toks[k], lt, rt))
        memo[(i, j)] = res
        return res

    return build(0, n)


def kind_prec(table, t):
    """(kind, precedence, assoc) of a tree node, or None for a primary."""
    if t == "x":
        return None
    if t[0] == "pre":
        return ("pre", table["prefix"], None)
    if t[0] == "post":
        return ("post", table["postfix"], None)
    p, a = table["infix"][t[0]]
    return ("in", p, a)


def satisfies(table, t):
    """The statement's local constraints (strict: an equal precedence between different kinds never satisfies)."""
    if t == "x":
        return True
    me = kind_prec(table, t)
    if me[0] == "pre":
        c = kind_prec(table, t[1])
        if c is not None and c[0] in ("in", "post") and not c[1] > me[1]:
            return False
        return satisfies(table, t[1])
    if me[0] == "post":
        c = kind_prec(table, t[1])
        if c is not None and c[0] in ("in", "pre") and not c[1] > me[1]:
            return False
        return satisfies(table, t[1])
    _, p, a = me
    lc, rc = kind_prec(table, t[1]), kind_prec(table, t[2])
    if lc is not None:
        if lc[0] == "in" and not (lc[1] > p or (lc[1] == p and a == "L" and lc[2] == "L")):
            return False
        if lc[0] == "pre" and not lc[1] > p:
            return False
        # a postfix node as left child is always well-formed: the postfix is nested inside
    if rc is not None:
        if rc[0] == "in" and not (rc[1] > p or (rc[1] == p and a == "R" and rc[2] == "R")):
            return False
        if rc[0] == "post" and not rc[1] > p:
            return False
        # a prefix node as right child is the only possible shape there
    return satisfies(table, t[1]) and satisfies(table, t[2])


def distinct_precedences(table):
    ps = [p for p, _ in table["infix"].values()]
    if table["prefix"] is not None:
        ps.append(table["prefix"])
    if table["postfix"] is not None:
        ps.append(table["postfix"])
    return len(set(ps)) == len(ps)


def weak_prefix_in_right_operand(table, toks):
    """A prefix operator that follows an infix operator of higher precedence: the statement does not settle it."""
    if table["prefix"] is None:
        return False
    for a, b in zip(toks, toks[1:]):
        if a in table["infix"] and b == "p" and table["infix"][a][0] > table["prefix"]:
            return True
    return False


# ----------------------------------------------------------------------------- implementation under test

def run_impl(table, toks):
    from pest.pairs import Pair, Pairs
    from pest.pratt import PrattParser
    from pest.state import RuleFrame

    names = {"x": "num", "p": "neg", "q": "fac", "i": "add", "j": "mul"}
    rev = {v: k for k, v in names.items()}
    text = "".join(toks)
    pairs = [Pair(text, k, k + 1, RuleFrame(names[t], 0)) for k, t in enumerate(toks)]

    class T(PrattParser):
        PREFIX_OPS = {"neg": table["prefix"]} if table["prefix"] is not None else {}
        POSTFIX_OPS = {"fac": table["postfix"]} if table["postfix"] is not None else {}
        INFIX_OPS = {names[n]: (p, a == "R") for n, (p, a) in table["infix"].items()}

        def parse_primary(self, pair):
            return "x"

        def parse_prefix(self, op, rhs):
            return ("pre", rhs)

        def parse_postfix(self, lhs, op):
            return ("post", lhs)

        def parse_infix(self, lhs, op, rhs):
            return (rev[op.name], lhs, rhs)

    stream = Pairs(pairs).stream()
    tree = T().parse_expr(stream)
    consumed = stream.pos
    return tree, consumed


def show(t):
    if t == "x":
        return "x"
    if t[0] == "pre":
        return "-(" + show(t[1]) + ")"
    if t[0] == "post":
        return "(" + show(t[1]) + ")!"
    return "(" + show(t[1]) + " " + t[0] + " " + show(t[2]) + ")"


def judge(table, toks):
    """Returns (failure dict or None, unique_by_brute_force: bool)."""
    try:
        got, consumed = run_impl(table, toks)
    except Exception as exc:  # noqa: BLE001
        return {"kind": f"exc:{type(exc).__name__}", "expected": "a tree", "got": str(exc)[:100]}, False
    if consumed != len(toks):
        return {"kind": "not-consumed", "expected": len(toks), "got": consumed}, False
    want, wc = pest_pratt(table, toks)
    if wc != len(toks):
        raise common.HarnessError("reference algorithm did not consume the stream")
    unique = False
    if distinct_precedences(table) and not weak_prefix_in_right_operand(table, toks):
        survivors = [t for t in all_trees(toks) if satisfies(table, t)]
        if len(survivors) == 1:
            unique = True
            if survivors[0] != want:
                raise common.HarnessError(f"oracle self-check failed: brute force {show(survivors[0])} vs binding-power {show(want)} for {table} {toks}")
    if got != want:
        return {"kind": "tree" + (":unique-by-statement" if unique else ""), "expected": show(want), "got": show(got)}, unique
    return None, unique


def _chunk(payload):
    tabs, n = payload
    stats = {"evaluations": 0, "unique": 0, "nontrivial": 0}
    fails = []
    for table in tabs:
        for toks in streams(table, n):
            stats["evaluations"] += 1
            f, unique = judge(table, toks)
            stats["unique"] += 1 if unique else 0
            stats["nontrivial"] += 1 if len(toks) >= 3 else 0
            if f is not None:
                f.update(table=table, stream="".join(toks))
                fails.append(f)
    fails.sort(key=lambda c: (len(c["stream"]), c["stream"], repr(c["table"])))
    return stats, fails[:300], len(fails)


def run(tier: str) -> int:
    n = BOUNDS[tier]
    rep = common.Report("C18", tier, "model_checking")
    tabs = tables()
    payloads = [(tabs[i::64], n) for i in range(64)]
    results = common.parallel_map(_chunk, payloads, fresh=False, order_seed=common.seed())
    agg = {"evaluations": 0, "unique": 0, "nontrivial": 0}
    fails, total = [], 0
    for st, fl, tot in results:
        for k, v in st.items():
            agg[k] += v
        fails.extend(fl)
        total += tot
    fails.sort(key=lambda c: (len(c["stream"]), c["stream"], repr(c["table"])))
    regress = 0
    for fd in common.fixed_findings("C18"):
        for w in fd.get("witnesses", []):
            regress += 1
            if replay_case(w, quiet=True):
                rep.violation({"family": "fixed-witness", "finding": fd["id"], "kind": "regression", **w})
    seen = set()
    for c in fails:
        sym = c["kind"]
        if sym in seen and len(rep.violations) >= 10:
            rep.violations.append(c)
        else:
            seen.add(sym)
            rep.violation({"family": "tables x streams", **c})
    rep.coverage = {
        "states": agg["evaluations"],
        "transitions": agg["evaluations"],
        "traces_validated_against_impl": agg["evaluations"],
        "evaluations": agg["evaluations"],
        "distinct_nontrivial": agg["nontrivial"],
        "rule": "every operator table with 0-2 infix operators (precedence 1-3, left/right), an optional prefix and an optional postfix operator (precedence 1-3) x every well-formed stream "
                "(prefix* primary postfix*)(infix prefix* primary postfix*)* of at most N tokens built from hand-made Pair objects; the tree built by a PrattParser subclass with tuple-building hooks is compared with "
                "(1) an independent transcription of pest's nud/led/lbp binding-power algorithm and the whole stream must be consumed; (2) where all precedences are distinct and no weak prefix follows a stronger infix, "
                "the unique tree satisfying the statement's local constraints (found by brute force over all trees) - oracle (1) and (2) are also compared with each other (self-check). non-trivial = streams of >= 3 tokens",
        "samples": [{"table": {"infix": {"i": [1, "L"], "j": [2, "R"]}, "prefix": 3, "postfix": None}, "stream": "pxixjx"}],
        "exhaustive": True,
        "tables": len(tabs),
        "max_tokens": n,
        "decided_by_statement_alone": agg["unique"],
        "failing_cases": total,
        "fixed_witnesses_replayed": regress,
    }
    rep.assumptions = ["where several operators of different kind share a precedence the statement is silent; there only the transcription of pest's algorithm applies"]
    return rep.finish()


def replay_case(case: dict, quiet: bool = False) -> bool:
    table = {"infix": {k: tuple(v) for k, v in case["table"]["infix"].items()}, "prefix": case["table"]["prefix"], "postfix": case["table"]["postfix"]}
    f, _ = judge(table, list(case["stream"]))
    if not quiet:
        print("  ", f)
    return f is not None
