"""C18: PrattParser honours declared precedence and associativity.

All operator tables of three families (up to 2 infix with both associativities, up to 2 prefix and up to 2
postfix operators; precedences with repetition from {0,1,2} or all distinct; rule names optionally shared between tables) x all well-formed token
streams up to N tokens.  Two oracles:
 (1) an independent transcription of pest's PrattParser binding-power algorithm (nud/led/lbp);
 (2) brute force, independent of any parsing algorithm: all trees over the stream that satisfy the
     statement's local constraints; where exactly one survives it must be the implementation's.
"""

from __future__ import annotations

import itertools

from .. import common

BOUNDS = {"quick": 6, "thorough": 8}


# ----------------------------------------------------------------------------- space

PRE, POST, INF = "pP", "qQ", "ij"
PRECS = (0, 1, 2)     # precedence 0 is a declared precedence like any other


def _norm_keep(t, n):
    if t.get("shared"):
        n["shared"] = t["shared"]
    if t.get("tagged"):
        n["tagged"] = True
    return n


def norm_table(t):
    """Tables as dicts tok -> precedence; a bare int/None (older witnesses) means the single operator p / q."""
    def side(v, tok):
        if v is None:
            return {}
        if isinstance(v, dict):
            return dict(v)
        return {tok: v}
    return _norm_keep(t, {"infix": {k: tuple(v) for k, v in t["infix"].items()}, "prefix": side(t["prefix"], "p"), "postfix": side(t["postfix"], "q")})


def tables():
    """Family A: precedences from PRECS with repetition, 0-2 infix, 0-1 prefix, 0-1 postfix operators.
    Family B: 0-2 operators of every kind, all precedences distinct (every bijection onto 1..k).
    Family C: two prefix and/or two postfix operators with precedences from PRECS (with repetition), 0-1 infix.
    Family D: tables of A-C with a rule name shared between two tables."""
    out = []
    infix_cfgs = [()]
    for p in PRECS:
        for a in ("L", "R"):
            infix_cfgs.append((("i", p, a),))
    single = list(infix_cfgs)
    for p1 in PRECS:
        for a1 in ("L", "R"):
            for p2 in PRECS:
                for a2 in ("L", "R"):
                    infix_cfgs.append((("i", p1, a1), ("j", p2, a2)))
    for inf in infix_cfgs:
        for pre in (None,) + PRECS:
            for post in (None,) + PRECS:
                out.append(norm_table({"infix": {n: (p, a) for n, p, a in inf}, "prefix": pre, "postfix": post}))
    seen = {repr(t) for t in out}

    def add(t):
        if repr(t) not in seen:
            seen.add(repr(t))
            out.append(t)
    # B
    for npre in range(3):
        for npost in range(3):
            for ninf in range(3):
                ops = list(PRE[:npre]) + list(POST[:npost]) + list(INF[:ninf])
                for perm in itertools.permutations(range(0, len(ops))):
                    prec = dict(zip(ops, perm))
                    for assoc in itertools.product("LR", repeat=ninf):
                        add({"infix": {o: (prec[o], assoc[k]) for k, o in enumerate(INF[:ninf])},
                             "prefix": {o: prec[o] for o in PRE[:npre]}, "postfix": {o: prec[o] for o in POST[:npost]}})
    # C
    two = [dict(zip("ab", pq)) for pq in itertools.product(PRECS, repeat=2)]
    for inf in single:
        for pre in [None] + list(PRECS) + two:
            for post in [None] + list(PRECS) + two:
                if not isinstance(pre, dict) and not isinstance(post, dict):
                    continue
                pr = {"p": pre["a"], "P": pre["b"]} if isinstance(pre, dict) else pre
                po = {"q": post["a"], "Q": post["b"]} if isinstance(post, dict) else post
                add(norm_table({"infix": {n: (p, a) for n, p, a in inf}, "prefix": pr, "postfix": po}))
    # E: small tables again with a node tag on every pair
    for t in list(out):
        if len(t["prefix"]) + len(t["postfix"]) + len(t["infix"]) <= 2:
            out.append(dict(t, tagged=True))
    # D: the same tables again with one rule name shared between two tables, where the table has both kinds
    for t in list(out):
        for mode, need in (("prefix=infix", ("p", "i")), ("prefix=postfix", ("p", "q")), ("both", ("p", "i", "P", "q"))):
            have = set(t["prefix"]) | set(t["postfix"]) | set(t["infix"])
            if all(x in have for x in need) and len(have) <= 4:
                out.append(dict(t, shared=mode))
    return out


def streams(table, n):
    """All well-formed streams (lists of token kinds) with at most n tokens."""
    pre = sorted(table["prefix"])
    post = sorted(table["postfix"])
    inf = sorted(table["infix"])
    operands = []
    for a in range(0, n):
        for b in range(0, n - a):
            if (a and not pre) or (b and not post):
                continue
            for ps in itertools.product(pre, repeat=a):
                for qs in itertools.product(post, repeat=b):
                    operands.append(list(ps) + ["x"] + list(qs))
    out = []

    def extend(cur):
        out.append(cur)
        for op in inf:
            for o in operands:
                if len(cur) + 1 + len(o) <= n:
                    extend(cur + [op] + o)
    for o in operands:
        if len(o) <= n:
            extend(list(o))
    return out


# ----------------------------------------------------------------------------- oracle 1: pest's algorithm

def pest_pratt(table, toks):
    """Transcription of pest::pratt_parser (nud / led / lbp); binding power = declared precedence + 1 (pest's own powers start above 0,
    the end of the stream has power 0)."""
    pos = [0]

    def lbp():
        if pos[0] >= len(toks):
            return 0
        t = toks[pos[0]]
        if t in table["infix"]:
            return table["infix"][t][0] + 1
        if t in table["postfix"]:
            return table["postfix"][t] + 1
        raise ValueError("expected operator")

    def nud():
        t = toks[pos[0]]
        pos[0] += 1
        if t in table["prefix"]:
            rhs = expr(table["prefix"][t] + 1 - 1)
            return (t, rhs)
        if t == "x":
            return "x"
        raise ValueError("expected prefix or primary")

    def led(lhs):
        t = toks[pos[0]]
        pos[0] += 1
        if t in table["infix"]:
            p, a = table["infix"][t]
            rhs = expr(p + 1 if a == "L" else p)
            return (t, lhs, rhs)
        if t in table["postfix"]:
            return (t, lhs)
        raise ValueError("expected infix or postfix")

    def expr(rbp):
        lhs = nud()
        while rbp < lbp():
            lhs = led(lhs)
        return lhs

    r = expr(0)
    return r, pos[0]


# ----------------------------------------------------------------------------- oracle 2: brute force over trees

def all_trees(toks):
    """All trees whose in-order traversal is toks.  Nodes: "x", (prefix tok, t), (postfix tok, t), (infix tok, l, r)."""
    n = len(toks)
    memo: dict = {}

    def build(i, j):
        if (i, j) in memo:
            return memo[(i, j)]
        res = []
        if j - i == 1 and toks[i] == "x":
            res.append("x")
        if j - i >= 2:
            if toks[i] in PRE:
                res.extend((toks[i], t) for t in build(i + 1, j))
            if toks[j - 1] in POST:
                res.extend((toks[j - 1], t) for t in build(i, j - 1))
            for k in range(i + 1, j - 1):
                if toks[k] in INF:
                    for lt in build(i, k):
                        for rt in build(k + 1, j):
                            res.append((toks[k], lt, rt))
        memo[(i, j)] = res
        return res

    return build(0, n)


def kind_prec(table, t):
    """(kind, precedence, assoc) of a tree node, or None for a primary."""
    if t == "x":
        return None
    if t[0] in PRE:
        return ("pre", table["prefix"][t[0]], None)
    if t[0] in POST:
        return ("post", table["postfix"][t[0]], None)
    p, a = table["infix"][t[0]]
    return ("in", p, a)


def satisfies(table, t):
    """The statement's local constraints (strict: an equal precedence between different kinds never satisfies)."""
    if t == "x":
        return True
    me = kind_prec(table, t)
    if me[0] == "pre":
        c = kind_prec(table, t[1])
        if c is not None and c[0] in ("in", "post") and not c[1] > me[1]:
            return False
        return satisfies(table, t[1])
    if me[0] == "post":
        c = kind_prec(table, t[1])
        if c is not None and c[0] in ("in", "pre") and not c[1] > me[1]:
            return False
        return satisfies(table, t[1])
    _, p, a = me
    lc, rc = kind_prec(table, t[1]), kind_prec(table, t[2])
    if lc is not None:
        if lc[0] == "in" and not (lc[1] > p or (lc[1] == p and a == "L" and lc[2] == "L")):
            return False
        if lc[0] == "pre" and not lc[1] > p:
            return False
        # a postfix node as left child is always well-formed: the postfix is nested inside
    if rc is not None:
        if rc[0] == "in" and not (rc[1] > p or (rc[1] == p and a == "R" and rc[2] == "R")):
            return False
        if rc[0] == "post" and not rc[1] > p:
            return False
        # a prefix node as right child is the only possible shape there
    return satisfies(table, t[1]) and satisfies(table, t[2])


def distinct_precedences(table):
    ps = [p for p, _ in table["infix"].values()] + list(table["prefix"].values()) + list(table["postfix"].values())
    return len(set(ps)) == len(ps)


def weak_prefix_in_right_operand(table, toks):
    """A prefix operator that follows an infix or prefix operator of higher precedence: the statement does not settle it."""
    for a, b in zip(toks, toks[1:]):
        if b in table["prefix"]:
            pa = table["infix"][a][0] if a in table["infix"] else table["prefix"].get(a)
            if pa is not None and pa > table["prefix"][b]:
                return True
    return False


# ----------------------------------------------------------------------------- implementation under test

NAMES = {"x": "num", "p": "neg", "P": "lnot", "q": "fac", "Q": "qm", "i": "add", "j": "mul"}
# shared names: one grammar rule used in two tables (a "-" that is negation and subtraction, a "++" that is pre- and post-increment);
# what a token is follows from where it stands
SHARED = {"none": {}, "prefix=infix": {"p": "minus", "i": "minus"}, "prefix=postfix": {"p": "incr", "q": "incr"}, "both": {"p": "minus", "i": "minus", "P": "incr", "q": "incr"}}


_INSTANCES: dict = {}


def run_impl(table, toks, reuse: bool = True):
    """reuse=True: one parser instance per table, used for every stream of that table (as an application would); reuse=False: a fresh one."""
    from pest.pairs import Pair, Pairs
    from pest.pratt import PrattParser
    from pest.state import RuleFrame

    text = "".join(toks)
    names = dict(NAMES, **SHARED[table.get("shared", "none")])
    # variant "tagged": every pair carries a node tag (as #t = op in a grammar would give it); tags must not matter to the parser
    tag = "t" if table.get("tagged") else None
    pairs = [Pair(text, k, k + 1, RuleFrame(names[t], 0), tag=tag) for k, t in enumerate(toks)]
    revp = {names[t]: t for t in table["prefix"]}
    revq = {names[t]: t for t in table["postfix"]}
    revi = {names[t]: t for t in table["infix"]}

    class T(PrattParser):
        PREFIX_OPS = {names[t]: p for t, p in table["prefix"].items()}
        POSTFIX_OPS = {names[t]: p for t, p in table["postfix"].items()}
        # associativity through the class constants a user would write (LEFT_ASSOC / RIGHT_ASSOC), not through bare booleans
        INFIX_OPS = {names[n]: (p, PrattParser.RIGHT_ASSOC if a == "R" else PrattParser.LEFT_ASSOC) for n, (p, a) in table["infix"].items()}

        def parse_primary(self, pair):
            return 0          # a node that is falsy (an evaluating parser returns numbers): "no node" must be tested with `is None`

        def parse_prefix(self, op, rhs):
            return (revp[op.name], rhs)

        def parse_postfix(self, lhs, op):
            return (revq[op.name], lhs)

        def parse_infix(self, lhs, op, rhs):
            return (revi[op.name], lhs, rhs)

    stream = Pairs(pairs).stream()
    if reuse:
        key = repr(table)
        if key not in _INSTANCES:
            _INSTANCES.clear()            # tables are visited one after the other
            _INSTANCES[key] = T()
        parser = _INSTANCES[key]
    else:
        parser = T()
    tree = _x(parser.parse_expr(stream))
    consumed = stream.pos
    return tree, consumed


def _x(t):
    """The implementation's tree with the falsy primary node 0 written as "x" (the oracles' notation)."""
    if t == 0 and not isinstance(t, tuple):
        return "x"
    if isinstance(t, tuple):
        return tuple(_x(c) if i else c for i, c in enumerate(t))
    return t


def show(t):
    if t == "x":
        return "x"
    if t[0] in PRE:
        return t[0] + "(" + show(t[1]) + ")"
    if t[0] in POST:
        return "(" + show(t[1]) + ")" + t[0]
    return "(" + show(t[1]) + " " + t[0] + " " + show(t[2]) + ")"


def judge(table, toks):
    """Returns (failure dict or None, unique_by_brute_force: bool)."""
    try:
        got, consumed = run_impl(table, toks)
    except Exception as exc:  # noqa: BLE001
        try:
            run_impl(table, toks, reuse=False)
            hist = " (only on a parser instance that has parsed other streams before; a fresh instance parses it)"
        except Exception:  # noqa: BLE001
            hist = ""
        return {"kind": f"exc:{type(exc).__name__}", "expected": "a tree", "got": str(exc)[:100] + hist}, False
    if consumed != len(toks):
        return {"kind": "not-consumed", "expected": len(toks), "got": consumed}, False
    want, wc = pest_pratt(table, toks)
    if wc != len(toks):
        raise common.HarnessError("reference algorithm did not consume the stream")
    unique = False
    if distinct_precedences(table) and not weak_prefix_in_right_operand(table, toks):
        survivors = [t for t in all_trees(toks) if satisfies(table, t)]
        if len(survivors) == 1:
            unique = True
            if survivors[0] != want:
                raise common.HarnessError(f"oracle self-check failed: brute force {show(survivors[0])} vs binding-power {show(want)} for {table} {toks}")
    if got != want:
        return {"kind": "tree" + (":unique-by-statement" if unique else ""), "expected": show(want), "got": show(got)}, unique
    return None, unique


def _chunk(payload):
    tabs, n = payload
    stats = {"evaluations": 0, "unique": 0, "nontrivial": 0}
    fails = []
    for table in tabs:
        for toks in streams(table, n):
            stats["evaluations"] += 1
            f, unique = judge(table, toks)
            stats["unique"] += 1 if unique else 0
            stats["nontrivial"] += 1 if len(toks) >= 3 else 0
            if f is not None:
                f.update(table=table, stream="".join(toks))
                fails.append(f)
    fails.sort(key=lambda c: (len(c["stream"]), c["stream"], repr(c["table"])))
    return stats, fails[:300], len(fails)


def run(tier: str) -> int:
    n = BOUNDS[tier]
    rep = common.Report("C18", tier, "model_checking")
    tabs = tables()
    payloads = [(tabs[i::64], n) for i in range(64)]
    results = common.parallel_map(_chunk, payloads, fresh=False, order_seed=common.seed())
    agg = {"evaluations": 0, "unique": 0, "nontrivial": 0}
    fails, total = [], 0
    for st, fl, tot in results:
        for k, v in st.items():
            agg[k] += v
        fails.extend(fl)
        total += tot
    fails.sort(key=lambda c: (len(c["stream"]), c["stream"], repr(c["table"])))
    regress = 0
    for fd in common.fixed_findings("C18"):
        for w in fd.get("witnesses", []):
            regress += 1
            if replay_case(w, quiet=True):
                rep.violation({"family": "fixed-witness", "finding": fd["id"], "kind": "regression", **w})
    seen = set()
    for c in fails:
        sym = c["kind"]
        if sym in seen and len(rep.violations) >= 10:
            rep.violations.append(c)
        else:
            seen.add(sym)
            rep.violation({"family": "tables x streams", **c})
    rep.coverage = {
        "states": agg["evaluations"],
        "transitions": agg["evaluations"],
        "traces_validated_against_impl": agg["evaluations"],
        "evaluations": agg["evaluations"],
        "distinct_nontrivial": agg["nontrivial"],
        "rule": "every operator table of three families - A: 0-2 infix operators (precedence 0-2 with repetition, left/right), an optional prefix and an optional postfix operator (precedence 0-2); "
                "B: 0-2 prefix, 0-2 postfix and 0-2 infix operators with all precedences distinct (every bijection onto 0..k-1, every associativity); C: two prefix and/or two postfix operators with precedences 0-2 with repetition and 0-1 infix; "
                "E: the tables with at most two operators again with a node tag on every pair; D: the tables of A-C with at most four operators again, with one grammar rule name shared between the prefix and the infix table, the prefix and the postfix table, or both - x every well-formed stream "
                "(prefix* primary postfix*)(infix prefix* primary postfix*)* of at most N tokens built from hand-made Pair objects; the tree built by a PrattParser subclass with tuple-building hooks is compared with "
                "(1) an independent transcription of pest's nud/led/lbp binding-power algorithm and the whole stream must be consumed; (2) where all precedences are distinct and no weak prefix follows a stronger infix, "
                "the unique tree satisfying the statement's local constraints (found by brute force over all trees) - oracle (1) and (2) are also compared with each other (self-check). non-trivial = streams of >= 3 tokens",
        "samples": [{"table": {"infix": {"i": [1, "L"], "j": [2, "R"]}, "prefix": {"p": 3}, "postfix": {}}, "stream": "pxixjx"},
                    {"table": {"infix": {"i": [2, "L"]}, "prefix": {"p": 1, "P": 3}, "postfix": {}}, "stream": "pPxix"}],
        "exhaustive": True,
        "tables": len(tabs),
        "max_tokens": n,
        "decided_by_statement_alone": agg["unique"],
        "failing_cases": total,
        "fixed_witnesses_replayed": regress,
    }
    rep.assumptions = ["where several operators of different kind share a precedence the statement is silent; there only the transcription of pest's algorithm applies"]
    return rep.finish()


def replay_case(case: dict, quiet: bool = False) -> bool:
    table = norm_table(case["table"])
    f, _ = judge(table, list(case["stream"]))
    if not quiet:
        print("  ", f)
    return f is not None
