"""C02: optimizer passes never change what a grammar parses.

Every optimizer configuration built from the exported DEFAULT_OPTIMIZER_PASSES runs in its own
forked child (Optimizer.optimize used to rewrite process-global built-ins in place; a child per
configuration keeps configurations from influencing each other and keeps the baseline pristine).
Inside a child the baseline (optimizer=None: IU, and GU where generated code is compared) is
computed first, then the configuration's parser is built and compared.
"""

from __future__ import annotations

import itertools

from .. import attribution, common, engine, families, gast, modes
from . import _grammar_check as gc

S, R = families.S, families.R
NOT_ANY = lambda x: ("star", ("grp", ("seq", (("not", x), R("ANY")))))  # noqa: E731

HELPERS = (("n", "", S("a")), ("sc", "_", ("alt", (S("a"), S("b")))), ("ss", "_", ("seq", (R("n"), S("b")))))
T_OPT = (S("a"), S("ab"), S("b"), ("ci", "a"), ("range", "a", "c"), R("ASCII_DIGIT"), R("ANY"), R("n"), R("sc"), R("ss"),
         NOT_ANY(S("b")), NOT_ANY(("grp", ("alt", (S("a"), S("b"))))), NOT_ANY(R("sc")), NOT_ANY(R("n")),
         # stop strings that overlap / are listed after a shorter one they contain
         NOT_ANY(("grp", ("alt", (S("b"), S("ab"))))), NOT_ANY(("grp", ("alt", (S("1"), S("a1"), S("b"))))),
         # a tagged reference to a silent rule (inlining must not lose the tag); a skip shape inside a skip shape
         ("tag", "tt", R("ss")), NOT_ANY(("grp", NOT_ANY(S("a")))))
SIGMA = "ab1"
PASS_NAMES = ("unroll", "skip", "inline built-in", "squash_choice", "inline silent")

BOUNDS = {
    # wide: list of (n, trivia, mods, max_inputs) with the 8 main configurations (generated code compared too)
    # deep: list of (n, trivia, mods, max_inputs) with all 278 configurations (interpreted)
    "quick": {"wide": [(2, ("none", "ws", "cm2", "ws_choice", "cm1", "ws_overlap"), ("", "@"), 45), (3, ("none", "cm1"), ("",), 30)],
              "deep": [(2, ("none", "cm1"), ("",), 30)]},
    "thorough": {"wide": [(3, ("none", "ws", "cm2", "both", "ws_choice", "cm1", "ws_overlap"), ("", "@", "$"), 130), (4, ("none", "cm1"), ("",), 45)],
                 "deep": [(2, ("none", "ws", "ws_choice", "cm1", "cm2"), ("", "@"), 45), (3, ("none", "cm1"), ("",), 30)]},
}

NAME_GRAMMARS = [
    ("user-rule-SKIP-with-comment", 'COMMENT = _{ "#" }\nSKIP = { "a" }\nr = { SKIP ~ SKIP }\n', ("r", "SKIP")),
    ("user-rule-SKIP-with-ws-choice", 'WHITESPACE = _{ " " | "\\t" }\nSKIP = { "a" }\nr = { SKIP ~ "b" }\n', ("r", "SKIP")),
    ("user-rule-SKIP-with-skip-idiom", 'WHITESPACE = _{ " " }\nSKIP = { "s" }\ntext = { (!"b" ~ ANY)* }\nstmt = { (SKIP | text) ~ "b" }\nq = !{ (!("b" | "ab") ~ ANY)* ~ "b"? }\n', ("text", "stmt", "q"), "abs ", 4),
    ("tagged-group-plus", 'n = { "a" }\nr = { #tt = (n)+ }\nq = { (#tt = n)+ ~ "b" }\n', ("r", "q")),
    ("builtins", 'r = { ASCII_HEX_DIGIT+ ~ NEWLINE? ~ ASCII_ALPHA* }\nq = { (ASCII_DIGIT | "a" | "b")+ }\n', ("r", "q")),
    # recursive rule graphs: passes that follow or inline references must terminate and keep the language
    ("silent-cycle", 'a = _{ "a" ~ b? }\nb = _{ "b" ~ a? }\nr = { a ~ "1" }\n', ("r",)),
    ("silent-self-recursion", 'p = _{ "a" ~ p ~ "b" | "1" }\nr = { p }\nq = { (!p ~ ANY)* ~ p }\n', ("r", "q")),
    ("normal-recursion", 'p = { "a" ~ p? ~ "b" }\ns = _{ p | "1" }\nr = @{ (!s ~ ANY)* ~ s }\n', ("r", "p")),
    ("silent-chain", 'a = _{ b ~ "1" }\nb = _{ c | "a" }\nc = _{ "b" ~ "b" }\nr = { a+ }\n', ("r",)),
    # case insensitive literals against letters whose Unicode case folding reaches ASCII (pest ignores ASCII case only),
    # an empty insensitive literal in a choice
    *[(f"folding-changes-length({i})",
       f'a = {{ ^"a{c}" | "a{c}b" }}\nb = {{ "a{c}b" | ^"a{c}" | "a" }}\nc = {{ (^"{c}a" | "{c}ab" | "b")+ }}\nd = {{ ^"{c}" | "{c}b" }}\ne = {{ (\'0\'..\'9\' | ^"{c}a" | "b")+ }}\nf = {{ ASCII_DIGIT | "a" | ^"a{c}" }}\n',
       ("a", "b", "c", "d", "e", "f"), "ab1A" + c, 3) for i, c in enumerate("\u00df\u0130\ufb01\u212a\u0149")],
    ("case-folding", 'r = { (^"ss" | ^"x")+ }\nq = { (^"s" | ^"k" | "!")+ }\nt = { (^"" | "sk") ~ "s"? }\nu = { ^"k" ~ ^"ss"? }\n', ("r", "q", "t", "u"), "sSkK\u00df\u017f\u212a!x", 3),
]


def configurations(which: str):
    """name -> tuple of pass indices (into DEFAULT_OPTIMIZER_PASSES), or special."""
    cfg = {"default": (0, 1, 2, 3, 4), "default-twice": (0, 1, 2, 3, 4, 0, 1, 2, 3, 4), "DEFAULT_OPTIMIZER-object": "default-object"}
    for i in range(5):
        cfg[f"single:{PASS_NAMES[i]}"] = (i,)
    main = dict(cfg)
    if which == "main":
        return main
    for k in (2, 3):
        for seq in itertools.product(range(5), repeat=k):
            cfg["seq:" + ",".join(map(str, seq))] = seq
    for perm in itertools.permutations(range(5)):
        cfg["perm:" + "".join(map(str, perm))] = perm
    return cfg


def make_optimizer(passes):
    from pest import DEFAULT_OPTIMIZER, DEFAULT_OPTIMIZER_PASSES, Optimizer

    if passes == "default-object":
        return DEFAULT_OPTIMIZER
    return Optimizer([DEFAULT_OPTIMIZER_PASSES[i] for i in passes])


class C02(engine.Check):
    prop = "C02"
    modes = ("IU", "GU", "IO", "GO")
    need_model = False


_SPECS: list = []
_CONFIGS: dict = {}


def _worker(payload):
    a, b, cname, with_generated = payload
    check = C02()
    specs = _SPECS[a:b]
    passes = _CONFIGS[cname]
    stats = {"evaluations": 0, "nontrivial": 0, "impl_ok": 0, "impl_fail": 0}
    out: list = []
    base = []
    # phase 1: baseline, before any Optimizer exists in this process
    for spec in specs:
        tab: dict = {}
        try:
            iu = modes.build(spec.text, "IU")
            engine._observe_all(check, iu, "IU", spec, tab, stats)
            if with_generated:
                engine._observe_all(check, modes.Generated(iu.generate()), "GU", spec, tab, stats)
        except Exception as exc:  # noqa: BLE001
            check.fail(out, spec, f"baseline-build-exc:{type(exc).__name__}", "IU", "", "", 0, "Parser", str(exc)[:200])
        base.append(tab)
    # phase 2: the configuration
    for spec, tab in zip(specs, base):
        if "IU" not in tab:
            continue
        try:
            po = modes.build_interp(spec.text, True, optimizer=make_optimizer(passes))
        except Exception as exc:  # noqa: BLE001
            check.fail(out, spec, f"build-exc:{type(exc).__name__}", f"IO[{cname}]", "", "", 0, "Parser", str(exc)[:200])
            continue
        engine._observe_all(check, po, "IO", spec, tab, stats)
        if with_generated and "GU" in tab:
            try:
                go = modes.Generated(po.generate())
            except Exception as exc:  # noqa: BLE001
                check.fail(out, spec, f"generate-exc:{type(exc).__name__}", f"GO[{cname}]", "", "", 0, "module", str(exc)[:200])
            else:
                engine._observe_all(check, go, "GO", spec, tab, stats)
        for bm, om in (("IU", "IO"), ("GU", "GO")):
            if bm not in tab or om not in tab:
                continue
            for key, ob in tab[bm].items():
                oo = tab[om][key]
                if bm == "IU":
                    if ob[0] == "ok":
                        stats["impl_ok"] += 1
                        stats["nontrivial"] += 1 if ob[1] else 0
                    else:
                        stats["impl_fail"] += 1
                if oo[0] in ("exc", "timeout") and ob[0] != oo[0]:
                    check.fail(out, spec, f"exc:{oo[1]}" if oo[0] == "exc" else "timeout", f"{om}[{cname}]", *key, gc.show(ob), gc.show(oo))
                elif ob[0] != oo[0] or (ob[0] == "ok" and ob != oo):
                    kind = "tree" if ob[0] == oo[0] == "ok" else ("rejects" if ob[0] == "ok" else "accepts")
                    check.fail(out, spec, kind, f"{om}[{cname}]", *key, gc.show(ob), gc.show(oo))
    total = len(out)
    out.sort(key=lambda c: (len(c["grammar"]), len(c["input"]), c["grammar"], c["input"], c["mode"]))
    # isolate batched failures (cheap re-run on the one rule)
    iso = []
    for c in out[:200]:
        spec = next((s for s in specs if s.text == c["grammar"]), None)
        if spec is None or spec.raw or len(spec.starts) <= 1 or not c["rule"]:
            iso.append(c)
            continue
        one = spec.isolated(c["rule"], [c["input"]])
        try:
            ob = modes.observe(modes.build(one.text, "IU") if c["mode"].startswith("IO") else modes.Generated(modes.build(one.text, "IU").generate()), c["rule"], c["input"], c["start_pos"])
            p = modes.build_interp(one.text, True, optimizer=make_optimizer(passes))
            oo = modes.observe(p if c["mode"].startswith("IO") else modes.Generated(p.generate()), c["rule"], c["input"], c["start_pos"])
            if ob[0] != oo[0] or (ob[0] == "ok" and ob != oo):
                c = dict(c, grammar=one.text, expected=gc.show(ob), got=gc.show(oo))
            else:
                c = dict(c, batched_only=True)
        except Exception:  # noqa: BLE001
            pass
        iso.append(c)
    return stats, iso, total


def builtin_reuse_specs():
    """The same built-in used twice in one rule, the first use as an alternative of a choice (passes that build on an inlined built-in
    must not share what they build between the two uses)."""
    starts = []
    for b in ("ASCII_ALPHA", "ASCII_ALPHANUMERIC", "ASCII_HEX_DIGIT", "NEWLINE", "ASCII_DIGIT", "ASCII_ALPHA_LOWER"):
        B = R(b)
        for lit in ("_", "-"):
            c1 = ("grp", ("alt", (B, S(lit))))
            c2 = ("grp", ("alt", (S(lit), B)))
            other = ("grp", ("alt", (B, S("-" if lit == "_" else "_"))))
            for body in (("seq", (c1, B)), ("seq", (B, c1)), ("seq", (c1, other)), ("seq", (c2, c1)), ("seq", (("star", c1), B)), ("seq", (c1, ("star", ("grp", ("alt", (B, R("ASCII_DIGIT"))))))),
                         ("alt", (("seq", (c1, S("!"))), B))):
                for m in ("", "@"):
                    starts.append(((), (m, ("seq", (body, R("EOI"))))))
    return families.batch_specs(starts, (), families.inputs("a_-1\n", 3), "zero", "built-in-reuse")


def range_merge_specs():
    """Choices of two or three ranges over a small lattice of bounds: disjoint, touching, overlapping, one containing the other, equal,
    reversed - what the merged character class must get right."""
    pts = "aceg"
    rngs = [("range", x, y) for x in pts for y in pts]            # includes reversed (empty) ranges
    starts = []
    for a in rngs:
        for b in rngs:
            starts.append(((), ("", ("alt", (a, b)))))
    for a in rngs[::3]:
        for b in rngs[1::3]:
            for c in rngs[2::3]:
                starts.append(((), ("", ("alt", (a, S("d"), b, c)))))
    return families.batch_specs(starts, (), tuple("abcdefgh") + ("", "A", "`"), "zero", "range-merge")


def build_specs(tier: str):
    b = BOUNDS[tier]
    env = gast.Env(HELPERS)

    def fam(n, trivs, mods, mi, label):
        out = []
        for tv in trivs:
            terms = T_OPT
            if "WHITESPACE" in dict((r[0], 1) for r in families.TRIVIA[tv]):
                terms = terms + (R("WHITESPACE"),)
            if "COMMENT" in dict((r[0], 1) for r in families.TRIVIA[tv]):
                terms = terms + (R("COMMENT"),)
            bodies = gast.exprs_upto(n, terms, gast.U_CORE, ("seq", "alt"), gast.Env(HELPERS + families.TRIVIA[tv]))
            sigma = SIGMA + families.TRIVIA_SIGMA[tv]
            ins = families.inputs(sigma, families.length_for(sigma, mi))
            starts = [((), (m, body)) for body in bodies for m in mods]
            out.extend(families.batch_specs(starts, families.TRIVIA[tv] + HELPERS, ins, "zero", f"{label}(n<={n},{tv})"))
        return out

    wide = [x for row in b["wide"] for x in fam(*row, "opt-wide")]
    deep = [x for row in b["deep"] for x in fam(*row, "opt-deep")]
    # explicit references to WHITESPACE / COMMENT (whose bodies are atomic by name) with inputs long enough for
    # trivia to occur INSIDE the referenced body if it were inlined into a non-atomic rule
    for tv, sigma, L in (("cm2", "a#!", 5), ("both", "a #!", 4)):
        terms = (S("a"),) + tuple(R(r[0]) for r in families.TRIVIA[tv])
        bodies = gast.exprs_upto(3 if tier == "thorough" else 2, terms, gast.U_CORE, ("seq", "alt"), gast.Env(HELPERS + families.TRIVIA[tv]))
        starts = [((), (m, body)) for body in bodies for m in ("", "@")]
        wide.extend(families.batch_specs(starts, families.TRIVIA[tv] + HELPERS, families.inputs(sigma, L), "zero", f"explicit-trivia({tv})"))
    wide.extend(families.extra_specs("zero", tier, short=True))
    wide.extend(families.skip_specs("zero", tier))
    wide.extend(families.metachar_specs("zero", tier, sparse=True))
    wide.extend(families.builtin_specs("zero", tier))
    wide.extend(builtin_reuse_specs())
    wide.extend(range_merge_specs())
    names = []
    ins = families.inputs("ab1 #\t\n", 3) + families.inputs("ab1", 4)[40:]
    for entry in NAME_GRAMMARS:
        label, text, starts = entry[:3]
        own = families.inputs(entry[3], entry[4]) if len(entry) > 3 else ins
        s = engine.Spec((), starts, own, "zero", f"names({label})")
        s._text = text
        s.raw = True
        names.append(s)
    return wide, deep, names


def run(tier: str) -> int:
    global _SPECS, _CONFIGS
    rep = common.Report("C02", tier, "exploration")
    wide, deep, names = build_specs(tier)
    main_cfg = configurations("main")
    all_cfg = configurations("all")
    _CONFIGS = all_cfg
    _SPECS = wide + deep + names
    nw, nd = len(wide), len(deep)
    payloads = []
    chunk_w = max(1, -(-nw // (common.workers() * 2)))
    for cname in main_cfg:
        for a in range(0, nw, chunk_w):
            payloads.append((a, min(nw, a + chunk_w), cname, True))
        payloads.append((nw + nd, nw + nd + len(names), cname, True))
    chunk_d = max(1, -(-nd // 2))
    for cname in all_cfg:
        if cname in main_cfg and tier == "quick":
            pass
        for a in range(nw, nw + nd, chunk_d):
            payloads.append((a, min(nw + nd, a + chunk_d), cname, False))
        if cname not in main_cfg:
            payloads.append((nw + nd, nw + nd + len(names), cname, False))
    results = common.parallel_map(_worker, payloads, fresh=True, order_seed=common.seed())
    agg: dict = {}
    failures, total = [], 0
    for stats, out, tot in results:
        for k, v in stats.items():
            agg[k] = agg.get(k, 0) + v
        failures.extend(out)
        total += tot
    failures.sort(key=lambda c: (len(c["grammar"]), len(c["input"]), c["grammar"], c["input"], c["mode"], c["kind"]))
    att = attribution.attribute("C02", failures, total, rep)
    (nfixed, regress), = common.parallel_map(gc._replay_fixed_worker, [("C02", replay_case)])
    for v in regress:
        rep.violation(v)
    b = BOUNDS[tier]
    rep.coverage = {
        "evaluations": agg.get("evaluations", 0),
        "distinct_nontrivial": agg.get("nontrivial", 0),
        "rule": "grammars biased to what the passes pattern-match on: every expression with <= n nodes over {\"a\",\"ab\",\"b\",^\"a\",'a'..'c',ASCII_DIGIT,ANY,n,sc,ss,(!\"b\" ~ ANY)*,(!(\"a\"|\"b\") ~ ANY)*,(!sc ~ ANY)*,(!n ~ ANY)*,(!(\"b\"|\"ab\") ~ ANY)*,(!(\"1\"|\"a1\"|\"b\") ~ ANY)*, #tt = ss, (!((!\"a\" ~ ANY)*) ~ ANY)*, WHITESPACE/COMMENT when defined} "
                "(sc = _{ \"a\" | \"b\" }, ss = _{ n ~ \"b\" }) with all unary operators and ~ |, x trivia configuration x start modifier, plus grammars with a user rule named SKIP, tagged groups and built-ins; "
                "optimizer configurations: the DEFAULT_OPTIMIZER object, the default pipeline, the pipeline applied twice, each of the 5 exported passes alone (these 8 also through generate()), "
                "every sequence of passes of length 2 and 3 (150) and all 120 permutations of the five (interpreted). Each (chunk, configuration) runs in its own forked child, baseline first. "
                "Oracle: same success/failure and same tree (incl. tags) as optimizer=None; construction must not raise. Non-trivial: the baseline returned at least one pair" + families.EXTRA_RULE_TEXT + families.SKIP_RULE_TEXT + families.META_RULE_TEXT + families.BUILTIN_RULE_TEXT + "; plus built-in reuse: a built-in whose body is a choice (ASCII_ALPHA, ASCII_ALPHANUMERIC, ASCII_HEX_DIGIT, NEWLINE) or a range used twice in one rule, in and next to choices with literals; plus range-merge: every choice of two ranges (and a third of the triples, with a literal) over the bounds a, c, e, g, reversed ranges included",
        "samples": [{"grammar": s.text[:400], "start_rules": list(s.starts)[:5], "n_inputs": len(s.inputs), "family": s.family} for s in common.pick_samples(wide + deep, 3)] + [{"configurations_example": list(all_cfg)[:12]}],
        "exhaustive": True,
        "bounds": {"wide": [{"n": r[0], "trivia": list(r[1]), "mods": list(r[2]), "max_inputs": r[3], "configurations": len(main_cfg)} for r in b["wide"]],
                   "deep": [{"n": r[0], "trivia": list(r[1]), "mods": list(r[2]), "max_inputs": r[3], "configurations": len(all_cfg)} for r in b["deep"]]},
        "grammars": len(_SPECS),
        "start_rules": sum(len(s.starts) for s in _SPECS),
        "configurations": len(all_cfg),
        "children": len(payloads),
        "impl_accepts": agg.get("impl_ok", 0),
        "impl_rejects": agg.get("impl_fail", 0),
        "failing_cases": total,
        "attribution": att,
        "fixed_witnesses_replayed": nfixed,
    }
    rep.assumptions = ["the property's 'random subsets/permutations/repetitions' is replaced by the exhaustive bounded set of configurations described in rule",
                       "failure positions are not compared (the property states no requirement on them)"]
    _SPECS, _CONFIGS = [], {}
    return rep.finish()


def replay_case(case: dict) -> bool:
    passes = case.get("passes")
    mode = case["mode"]
    cname = None
    if "[" in mode:
        mode, cname = mode.split("[", 1)
        cname = cname.rstrip("]")
    if passes is not None:
        idx = tuple(PASS_NAMES.index(p) for p in passes)
    elif cname is not None:
        idx = configurations("all")[cname]
    else:
        idx = (0, 1, 2, 3, 4)
    gen = mode.startswith("G")
    base = modes.build(case["grammar"], "IU")
    ob = modes.observe(modes.Generated(base.generate()) if gen else base, case["rule"], case["input"], case.get("start_pos", 0))
    p = modes.build_interp(case["grammar"], True, optimizer=make_optimizer(idx))
    oo = modes.observe(modes.Generated(p.generate()) if gen else p, case["rule"], case["input"], case.get("start_pos", 0))
    print("  optimizer=None:", gc.show(ob))
    print("  optimised     :", gc.show(oo))
    return ob[0] != oo[0] or (ob[0] == "ok" and ob != oo)
