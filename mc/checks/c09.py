"""C09: snapshotting stack, counter and parser state act like full-copy snapshots.

Explicit-state BFS over the real objects in lock-step with a full-copy reference.
"""

from __future__ import annotations

from .. import bfs, common

BOUNDS = {
    # machine: (quick depth, thorough depth, split_at)
    "Stack": (10, 14, 8),
    "SnapshottingInt": (11, 14, 9),
    "ParserState": (8, 11, 6),
}


class StackMachine:
    name = "Stack"
    ops = ("push", "pop", "clear", "snapshot", "restore", "drop_snapshot")

    def new(self):
        from pest.stack import Stack

        return Stack(), {"cur": [], "snaps": [], "n": 0}

    def enabled(self, impl, ref):
        ops = ["push", "clear", "snapshot", "restore", "drop_snapshot"]
        if ref["cur"]:
            ops.insert(1, "pop")
        return ops

    def apply(self, impl, ref, op):
        if op == "push":
            v = f"v{ref['n']}"
            ref["n"] += 1
            ref["cur"].append(v)
            impl.push(v)
        elif op == "pop":
            want = ref["cur"].pop()
            got = impl.pop()
            if got != want:
                raise AssertionError(f"pop returned {got!r}, reference {want!r}")
        elif op == "clear":
            ref["cur"] = []
            impl.clear()
        elif op == "snapshot":
            ref["snaps"].append(list(ref["cur"]))
            impl.snapshot()
        elif op == "restore":
            ref["cur"] = ref["snaps"].pop() if ref["snaps"] else []
            impl.restore()
        elif op == "drop_snapshot":
            if ref["snaps"]:
                ref["snaps"].pop()
            impl.drop_snapshot()
        else:
            raise common.HarnessError(op)

    def observe(self, impl):
        items = list(impl)
        return (items, len(impl), impl.empty(), impl.peek() if items else None,
                [impl[i] for i in range(len(impl))], list(impl[:]))

    def expect(self, ref):
        cur = list(ref["cur"])
        return (cur, len(cur), not cur, cur[-1] if cur else None, cur, cur)

    def internal_object(self, impl):
        return impl


class IntMachine:
    name = "SnapshottingInt"
    ops = ("inc", "zero", "snapshot", "restore", "drop")

    def new(self):
        from pest.checkpoint_int import SnapshottingInt

        return SnapshottingInt(), {"cur": 0, "snaps": []}

    def enabled(self, impl, ref):
        ops = ["snapshot", "restore", "drop", "zero"]
        if ref["cur"] < 3:  # keeps the value domain finite; the code never branches on the value
            ops.insert(0, "inc")
        return ops

    def apply(self, impl, ref, op):
        if op == "inc":
            ref["cur"] += 1
            impl += 1  # in-place __add__, as Rule.parse uses it
            if impl is None:
                raise AssertionError("+= returned None")
        elif op == "zero":
            ref["cur"] = 0
            impl.zero()
        elif op == "snapshot":
            ref["snaps"].append(ref["cur"])
            impl.snapshot()
        elif op == "restore":
            ref["cur"] = ref["snaps"].pop() if ref["snaps"] else 0
            impl.restore()
        elif op == "drop":
            if ref["snaps"]:
                ref["snaps"].pop()
            impl.drop()

    def observe(self, impl):
        return (int(impl), impl > 0, impl == 0, str(impl))

    def expect(self, ref):
        return (ref["cur"], ref["cur"] > 0, ref["cur"] == 0, str(ref["cur"]))

    def internal_object(self, impl):
        return impl


class StateMachine:
    name = "ParserState"
    ops = ("checkpoint", "ok", "restore", "push", "drop", "advance", "rule_push", "rule_pop", "atomic_inc", "atomic_zero", "atomic_enter", "atomic_exit")

    def new(self):
        from pest.state import ParserState

        # "nest" records how checkpoints and atomic_checkpoint blocks are nested (they always nest properly in the parser:
        # a rule's atomic block lies inside or around a checkpoint span, never across one)
        ref = {"cur": {"pos": 0, "user": [], "rule": [], "atomic": 0, "hide": False}, "snaps": [], "n": 0, "nest": [], "blocks": [], "cms": []}
        return ParserState("x" * 64, 0, None), ref

    def enabled(self, impl, ref):
        cur = ref["cur"]
        ops = ["checkpoint", "push"]
        if ref["nest"] and ref["nest"][-1] == "cp":
            ops += ["ok", "restore"]
        if ref["nest"] and ref["nest"][-1] == "ab":
            ops.append("atomic_exit")
        if ref["nest"].count("ab") < 2:
            ops.append("atomic_enter")
        if cur["user"]:
            ops.append("drop")
        if cur["pos"] < 2:
            ops.append("advance")
        if len(cur["rule"]) < 2:
            ops.append("rule_push")
        if cur["rule"]:
            ops.append("rule_pop")
        if cur["atomic"] < 2:
            ops.append("atomic_inc")
        if cur["atomic"] > 0:
            ops.append("atomic_zero")
        return ops

    def apply(self, impl, ref, op):
        import copy

        cur = ref["cur"]
        if op == "checkpoint":
            ref["snaps"].append(copy.deepcopy(cur))
            ref["nest"].append("cp")
            impl.checkpoint()
        elif op == "ok":
            ref["snaps"].pop()
            ref["nest"].pop()
            impl.ok()
        elif op == "restore":
            hide = cur["hide"]
            ref["cur"] = ref["snaps"].pop()
            ref["cur"]["hide"] = hide          # pair hiding is not part of a checkpoint
            ref["nest"].pop()
            impl.restore()
        elif op == "atomic_enter":
            # what Rule.parse does for an atomic rule: enter the block, raise the depth, hide pairs
            ref["blocks"].append((cur["atomic"], cur["hide"]))
            ref["nest"].append("ab")
            cm = impl.atomic_checkpoint()
            cm.__enter__()
            ref["cms"].append(cm)
            cur["atomic"] += 1
            cur["hide"] = True
            impl.atomic_depth += 1
            impl.hide_pairs = True
        elif op == "atomic_exit":
            ref["cur"]["atomic"], ref["cur"]["hide"] = ref["blocks"].pop()
            ref["nest"].pop()
            ref["cms"].pop().__exit__(None, None, None)
        elif op == "push":
            v = f"v{ref['n']}"
            ref["n"] += 1
            cur["user"].append(v)
            impl.push(v)
        elif op == "drop":
            cur["user"].pop()
            impl.drop()
        elif op == "advance":
            cur["pos"] += 1
            impl.pos += 1
        elif op == "rule_push":
            v = f"v{ref['n']}"
            ref["n"] += 1
            cur["rule"].append(v)
            impl.rule_stack.push(v)
        elif op == "rule_pop":
            cur["rule"].pop()
            impl.rule_stack.pop()
        elif op == "atomic_inc":
            cur["atomic"] += 1
            impl.atomic_depth += 1
        elif op == "atomic_zero":
            cur["atomic"] = 0
            impl.atomic_depth.zero()

    def observe(self, impl):
        return (impl.pos, list(impl.user_stack), list(impl.rule_stack), int(impl.atomic_depth),
                impl.user_stack.peek() if len(impl.user_stack) else None, bool(impl.hide_pairs))

    def expect(self, ref):
        cur = ref["cur"]
        return (cur["pos"], list(cur["user"]), list(cur["rule"]), cur["atomic"], cur["user"][-1] if cur["user"] else None, cur["hide"])

    def internal_object(self, impl):
        return impl


MACHINES = [StackMachine(), IntMachine(), StateMachine()]


def run(tier: str) -> int:
    rep = common.Report("C09", tier, "model_checking")
    total_states = total_trans = 0
    per_machine = {}
    samples = []
    regress = 0
    for f in common.fixed_findings("C09"):
        for w in f.get("witnesses", []):
            regress += 1
            if _quiet_replay(w):
                rep.violation({"family": "fixed-witness", "finding": f["id"], "kind": "regression", **w})
    for m in MACHINES:
        q, t, split = BOUNDS[m.name]
        depth = q if tier == "quick" else t
        res = bfs.run(m, depth, split_at=split if depth > split else None)
        total_states += res["states"]
        total_trans += res["transitions"]
        per_machine[m.name] = {"depth": depth, "states": res["states"], "transitions": res["transitions"],
                               "per_op": res["per_op"], "levels": res["levels"], "violating_transitions": res["violation_count"]}
        for v in res["violations"][:3]:
            rep.violation({"family": f"bfs:{m.name}", "machine": m.name, **v})
        # a sample trace: replay the lexicographically-first deepest trace reconstructible from ops
        samples.append({"machine": m.name, "ops_alphabet": list(m.ops), "example_history": _example(m, depth)})
    rep.coverage = {
        "states": total_states,
        "transitions": total_trans,
        "traces_validated_against_impl": total_trans,
        "samples": samples,
        "exhaustive": True,
        "per_machine": per_machine,
        "fixed_witnesses_replayed": regress,
        "evaluations": total_trans,
        "distinct_nontrivial": total_states,
        "rule": "every history of the operation alphabet up to the stated depth, executed on the real object in lock-step with a full-copy reference; "
                "a state is distinct by (generic deep snapshot of the implementation object, reference value incl. all outstanding snapshots) up to renaming of pushed values; "
                "every transition is an implementation call compared with the reference (contents, len, empty, peek, indexing)",
        "explanation": "violating transitions are not extended (their successors would be meaningless)",
    }
    rep.assumptions = [
        "the objects never inspect pushed values (only move them), so renaming values preserves futures",
        "SnapshottingInt: value domain capped at 3, ParserState: pos<=2, rule stack<=2, atomic depth<=2 (no code path branches on these magnitudes)",
        "ParserState.ok/restore are only explored with an outstanding checkpoint (the library never calls them otherwise)",
        "histories longer than the depth bound are not explored (the property's 'longer random ones' clause is not claimed)",
    ]
    return rep.finish()


def _example(m, depth):
    """One concrete explored history with the observation after each step."""
    import itertools

    impl, ref = m.new()
    hist = []
    cycle = itertools.cycle(range(7))
    for _ in range(min(depth, 8)):
        en = m.enabled(impl, ref)
        op = en[(next(cycle) * 3 + common.seed()) % len(en)]
        try:
            m.apply(impl, ref, op)
            hist.append([op, repr(m.observe(impl)[0])])
        except Exception as exc:  # noqa: BLE001
            hist.append([op, f"raised {type(exc).__name__}"])
            break
    return hist


def _quiet_replay(case: dict) -> bool:
    import contextlib
    import io

    with contextlib.redirect_stdout(io.StringIO()):
        return replay_case(case)


def replay_case(case: dict) -> bool:
    """Re-run one recorded history; True if it still violates."""
    m = {x.name: x for x in MACHINES}[case["machine"]]
    impl, ref = m.new()
    for op in case["ops"]:
        try:
            m.apply(impl, ref, op)
        except Exception as exc:  # noqa: BLE001
            print(f"  {op}: raised {type(exc).__name__}: {exc}")
            return True
        got, want = m.observe(impl), m.expect(ref)
        print(f"  {op}: impl={got[0]!r} ref={want[0]!r}")
        if got != want:
            return True
    return False
