"""C05: stack operations match their specification and are undone on backtracking (4 modes).

Grammar level: PRE ~ W[ INNER ~ FAILER ] ~ PROBE with PROBE = PEEK_ALL ~ EOI, so that the input
suffix that lets the parse succeed *is* the stack content (the whole stack is observable through
the public API).  History level: the explicit-state search of C09 over ParserState.
"""

from __future__ import annotations

from .. import common, engine, families, gast, modes
from . import _grammar_check as gc
from .c04 import C04

S = families.S
PUSH_AB = ("push", ("alt", (S("a"), S("b"))))
T_ST = (S("a"), PUSH_AB, ("pushlit", "b"), ("pop",), ("peek",), ("drop",), ("peekall",), ("popall",),
        ("slice", None, 1), ("slice", -1, None), ("slice", 0, None), ("slice", 1, 2), ("slice", None, 0))
U_ST = (("opt",), ("star",), ("and",), ("not",), ("grp",))
PRES = {"none": (), "lit": (("pushlit", "a"),), "two": (PUSH_AB, PUSH_AB)}
WRAPS = ("none", "alt", "opt", "star", "and", "not")
PROBE = (("peekall",), ("ref", "EOI"))
NEVER = S("!")

BOUNDS = {"quick": (3, 4), "thorough": (4, 5)}
BATCH = 60


def wrap(w, inner):
    if w == "none":
        return inner
    if w == "alt":
        return ("grp", ("alt", (inner, S(""))))
    if w == "opt":
        return ("opt", inner)
    if w == "star":
        return ("star", inner)
    if w == "and":
        return ("and", inner)
    if w == "not":
        return ("not", inner)
    raise ValueError(w)


class C05(C04):
    prop = "C05"

    def judge(self, spec, tab, model_obs, out):
        for mode in self.modes:
            t = tab.get(mode)
            if t is None:
                continue
            for key, mo in model_obs.items():
                obs = t[key]
                if obs[0] == "timeout" and mo[0] == "unspec" and "matched empty" in str(mo[1]):
                    continue  # a repetition over something that matched empty: outside the domain of the property (it need not terminate)
                if obs[0] in ("exc", "timeout"):
                    self.fail(out, spec, f"exc:{obs[1]}" if obs[0] == "exc" else "timeout", mode, *key, gc.show(mo), gc.show(obs))
                elif not modes.same_outcome_as_model(obs, mo):
                    kind = "tree" if (mo[0] == "ok" and obs[0] == "ok") else ("rejects" if mo[0] == "ok" else "accepts")
                    self.fail(out, spec, kind, mode, *key, gc.show(mo), gc.show(obs))


def specs(tier: str):
    k, L = BOUNDS[tier]
    env = gast.Env(())
    inners = gast.exprs_upto(k, T_ST, U_ST, ("seq", "alt"), env)
    ins = families.inputs("ab", L)
    starts = []
    for pre_name, pre in PRES.items():
        for w in WRAPS:
            for failer in (False, True):
                for inner in inners:
                    body_inner = ("seq", (inner, NEVER)) if failer else inner
                    if w == "star" and env.nullable(body_inner):
                        continue
                    mid = wrap(w, ("grp", body_inner) if failer or inner[0] in ("seq", "alt") else body_inner) if w != "none" else body_inner
                    items = tuple(pre) + (mid,) + PROBE
                    starts.append((f"r{len(starts)}", "", ("seq", items)))
    out = []
    for i in range(0, len(starts), BATCH):
        grp = starts[i:i + BATCH]
        out.append(engine.Spec(tuple(grp), [g[0] for g in grp], ins, "zero", f"stack(k<={k},L={L})"))
    return out


def rep_specs(tier: str):
    """Repetitions whose operand can succeed without consuming input (DROP, POP of an empty entry): every iteration changes the stack."""
    import itertools

    L = 4 if tier == "quick" else 5
    opt_a = ("opt", S("a"))
    pushes = (("push", opt_a), ("pushlit", ""), PUSH_AB)
    pres = [t for n in (2, 3) for t in itertools.product(pushes, repeat=n)]
    guard = ("and", ("drop",))                       # succeeds iff the stack is not empty, changes nothing
    operands = (("drop",), ("grp", ("seq", (("drop",), opt_a))), ("grp", ("seq", (opt_a, ("drop",)))), ("grp", ("seq", (guard, ("pop",)))),
                ("grp", ("seq", (guard, ("peek",), ("drop",)))), ("grp", ("alt", (("seq", (S("b"), ("drop",))), ("drop",)))))
    reps = (("star",), ("plus",), ("opt",), ("exact", 2), ("min", 1), ("max", 2), ("minmax", 1, 2))
    starts = []
    for pre in pres:
        for e in operands:
            for u in reps:
                rep = (u[0], e) + tuple(u[1:])
                starts.append((f"r{len(starts)}", "", ("seq", tuple(pre) + (rep,) + PROBE)))
                starts.append((f"r{len(starts)}", "", ("seq", tuple(pre) + (("grp", ("alt", (("seq", (rep, NEVER)), S("")))),) + PROBE)))
                starts.append((f"r{len(starts)}", "", ("seq", tuple(pre) + (rep, ("opt", S("b")), ("peekall",), ("ref", "EOI")))))
    ins = families.inputs("ab", L)
    out = []
    for i in range(0, len(starts), BATCH):
        grp = starts[i:i + BATCH]
        out.append(engine.Spec(tuple(grp), [g[0] for g in grp], ins, "zero", f"stack-repetition(L={L})"))
    return out


def two_level_specs(tier: str):
    """Two nested backtracking constructs, each holding a stack operation: PUSH("a") ~ PUSH("b") ~ W1[ op1 ~ W2[ op2 ~ F2 ] ~ F1 ] ~ probe.
    The inner construct may pop BELOW what the outer one popped; every combination of committing / abandoning the two levels."""
    ops = (("pop",), ("drop",), ("push", S("a")), ("popall",), ("peek",), ("pushlit", "b"))
    wraps = ("alt", "opt", "star", "and", "not", "none")
    starts = []
    pre = (("push", S("a")), ("push", S("b")))
    for w1 in wraps:
        for w2 in wraps:
            for o1 in ops:
                for o2 in ops:
                    for f1 in (False, True):
                        for f2 in (False, True):
                            inner = ("seq", (o2, NEVER)) if f2 else o2
                            if w2 == "star" and (f2 is False and o2[0] in ("push", "pushlit", "peek", "popall")):
                                continue  # a repetition that never fails
                            mid2 = wrap(w2, ("grp", inner)) if w2 != "none" else ("grp", inner)
                            body1 = ("seq", (o1, mid2) + ((NEVER,) if f1 else ()))
                            if w1 == "star" and not f1:
                                continue
                            mid1 = wrap(w1, ("grp", body1)) if w1 != "none" else ("grp", body1)
                            starts.append((f"r{len(starts)}", "", ("seq", pre + (mid1,) + PROBE)))
    ins = families.inputs("ab", 5 if tier == "quick" else 6)
    out = []
    for i in range(0, len(starts), BATCH):
        grp = starts[i:i + BATCH]
        out.append(engine.Spec(tuple(grp), [g[0] for g in grp], ins, "zero", "stack-two-levels"))
    return out


def trivia_specs(tier: str):
    """Stack operations next to implicit rules that touch the stack themselves: COMMENT = _{ PUSH("#") ~ "!" ~ DROP } (a COMMENT attempt that
    fails after its PUSH must leave the stack as it was) and WHITESPACE = _{ POP } (what matches as whitespace depends on the stack; trivia
    that is given back must give the entry back too), in every mode."""
    k = 2
    env = gast.Env(())
    inners = gast.exprs_upto(k, T_ST, U_ST, ("seq", "alt"), env)
    out = []
    for cfg, sigma in (("cm_stack", "a#! "), ("ws_pop", "ab")):
        triv = families.TRIVIA[cfg]
        ins = families.inputs(sigma, (4 if tier == "thorough" else 3) + (1 if cfg == "ws_pop" else 0))
        starts = []
        for pre in ((), (("pushlit", "a"),)):
            for w in ("none", "alt", "opt", "star"):
                for inner in inners:
                    for failer in (False, True):
                        body_inner = ("seq", (inner, NEVER)) if failer else inner
                        if w == "star" and env.nullable(body_inner):
                            continue
                        mid = wrap(w, ("grp", body_inner) if failer or inner[0] in ("seq", "alt") else body_inner) if w != "none" else body_inner
                        # S("a") ~ ... : a sequence boundary before and after the stack operation, so that implicit rules run there
                        starts.append((f"r{len(starts)}", "", ("seq", tuple(pre) + (S("a"), mid, ("star", S("a"))) + PROBE)))
        for i in range(0, len(starts), BATCH):
            grp = starts[i:i + BATCH]
            out.append(engine.Spec(triv + tuple(grp), [g[0] for g in grp], ins, "zero", f"stack-with-trivia({cfg})"))
    return out


HISTORY_DEPTH = {"quick": {"Stack": 9, "ParserState": 7}, "thorough": {"Stack": 12, "ParserState": 9}}


def history_part(tier):
    """(ii) all histories of push/pop/checkpoint/commit/rollback: the explicit-state search of C09."""
    from .. import bfs
    from . import c09

    out = {"violations": [], "states": 0, "transitions": 0, "depths": HISTORY_DEPTH[tier]}
    for m in (c09.StackMachine(), c09.StateMachine()):
        d = HISTORY_DEPTH[tier][m.name]
        res = bfs.run(m, d, split_at=min(d, 6) if d > 6 else None)
        out["states"] += res["states"]
        out["transitions"] += res["transitions"]
        for v in res["violations"][:3]:
            out["violations"].append({"family": f"bfs:{m.name}", "machine": m.name, "mode": "-", "grammar": "", "rule": "", "input": "", **v})
    return out


def run(tier: str) -> int:
    k, L = BOUNDS[tier]
    hist = history_part(tier)
    return gc.run_model_check(
        C05(), specs(tier) + rep_specs(tier) + trivia_specs(tier) + two_level_specs(tier) + [sp for sp in families.metachar_specs("zero", tier)] + families.recursive_specs("zero", tier, stack=True), tier, "model_checking",
        bounds=[{"inner_size": k, "L": L, "alphabet": "ab", "pre": list(PRES), "wrappers": list(WRAPS), "failer": [False, True]}],
        rule="start rules PRE ~ W[INNER ~ FAILER] ~ PEEK_ALL ~ EOI: PRE in {nothing, PUSH_LITERAL(\"a\"), PUSH(\"a\"|\"b\") ~ PUSH(\"a\"|\"b\")}, INNER every expression with <= k nodes over "
             "{\"a\", PUSH(\"a\"|\"b\"), PUSH_LITERAL(\"b\"), POP, PEEK, DROP, PEEK_ALL, POP_ALL, PEEK[..1], PEEK[-1..], PEEK[0..], PEEK[1..2], PEEK[..0]} with ? * & ! ( ) ~ |, W in {none, (. | \"\"), ?, *, &, !}, "
             "FAILER in {nothing, a literal that cannot match}; x every string over {a,b} up to length L; four modes against the reference model (persistent stack: every abandoned attempt and every predicate is undone by construction). "
             "Plus the stack-repetition family: after 2-3 pushes of possibly empty entries (PUSH(\"a\"?), PUSH_LITERAL(\"\"), PUSH(\"a\"|\"b\")), every repetition ? * + {2} {1,} {,2} {1,2} of an operand that can succeed without consuming input "
             "(DROP, (DROP ~ \"a\"?), (\"a\"? ~ DROP), (&DROP ~ POP), (&DROP ~ PEEK ~ DROP), (\"b\" ~ DROP | DROP)), followed by the probe, alone and inside an abandoned alternative. "
             + families.RECURSIVE_RULE_TEXT[2:] + " (stack operations as op, POP_ALL ~ EOI as the probe). " + "Plus stack-two-levels: PUSH(\"a\") ~ PUSH(\"b\") ~ W1[op1 ~ W2[op2 ~ F2] ~ F1] ~ probe for every pair of six stack operations, every pair of wrappers and every combination of the two levels failing or committing, inputs over {a,b} up to length 5; "
             "plus literals of regular-expression metacharacters and non-BMP characters through PUSH_LITERAL and PUSH. Plus stack-with-trivia: \"a\" ~ W[INNER ~ FAILER] ~ \"a\" ~ PEEK_ALL ~ EOI with INNER <= 2 nodes, under WHITESPACE = _{ \" \" } and COMMENT = _{ PUSH(\"#\") ~ \"!\" ~ DROP } (an implicit rule that pushes before it can fail), and under WHITESPACE = _{ POP } (an implicit rule that reads and pops the stack). "
             "UNSPEC cases (PEEK/POP on an empty stack, out-of-range slice) are judged only by 'no exception other than PestParsingError'. Non-trivial: the reference run backtracked or returned pairs. "
             "The history-level half of the quantifier is C09's BFS over ParserState.checkpoint/ok/restore x push/drop.",
        assumptions=["implicit trivia only in the stack-with-trivia family (one configuration)"],
        extra_cov={"history_level": {k2: v for k2, v in hist.items() if k2 != "violations"}}, extra_violations=hist["violations"],
    )


def replay_case(case: dict) -> bool:
    if case.get("machine"):
        from . import c09

        return c09.replay_case(case)
    return gc.replay_model_case(case)
