"""C11: loading a grammar is total: a Parser or a renderable PestGrammarError (fault enumeration)."""

from __future__ import annotations

import glob
import itertools
import os
import re

from .. import common

ALPHABET = "aP={}()[]\"'\\/*!_^.~|#,0- \n"
TOKENS = ["a", "PUSH", "PUSH_LITERAL", "PEEK", "PEEK_ALL", "POP", "POP_ALL", "DROP", "POPx", '"s"', '^"s"', "'c'", "'\\n'", "..", "(", ")", "[", "]",
          "{", "}", ",", "2", "-1", "|", "~", "&", "!", "?", "*", "+", "#t =", "#tt =", "=", "_", "@", "$", "///d\n", "//!d\n", "//c\n", "/*c*/", "/*"]

BOUNDS = {
    "quick": {"N": 3, "K": 3, "file_faults": ("prefix", "delete"), "stride": 1},
    "thorough": {"N": 4, "K": 4, "file_faults": ("prefix", "delete", "replace", "insert"), "stride": 1},
}
REPL = "a\"'\\{}()~|*/ \n_0^."
# pumped texts: a unit repeated many times (termination / blow-up: nested openers, unterminated literals and comments, operator runs)
PUMP_UNITS = TOKENS + ["(a", "a|", "a~", "(a|", "(a~", '"\\', "/*/", "/* ", "/*x*", "*/", "'a'..", "#t=", "a{", "a{1,", "a{1}", "PUSH(a", "PEEK[", "PEEK[1..", "PEEK[1..2]", "!(", "&(", "a?", "a*",
                        "a = {", "a = { b }", "a = { b }\n", "//", "///", "//!", "//!\n", "///\n", "\\", '"', "'", '"\\u{', '"\\x', "\n", " ", "\t", "\r\n", "\r", "\u00e9", "_", "^", "^\"", "..", "0", "-"]
PUMP_CLOSERS = [("(", ")"), ("PUSH(", ")"), ("/*", "*/"), ("/* ", " */"), ("!(", ")"), ("(a|", ")"), ("(a~", ")"), ("(a~(", "))"), ("((", ")|a)"), ("{", "}"), ("[", "]")]
PUMP_POSTFIX = ["?", "*", "+", "{2}", "{1,}", "{,2}", "{1,2}", "{0}", "{1}", "?*", "+?", "*+", "{2}+", " ~ a", " | a", "~a+", "|a*", "?~a", "{2}|a", " ~ (a)", "+ ~ a+"]
PUMP_COUNTS = {"quick": (25, 400), "thorough": (25, 400, 6000)}


def grammar_files():
    fs = sorted(glob.glob(os.path.join(common.REPO, "tests", "grammars", "*.pest")) + glob.glob(os.path.join(common.REPO, "examples", "*", "*.pest")))
    return fs


def load(text: str, optimised: bool):
    """Return (outcome, detail): 'parser' | 'grammar-error' | 'exc'. Checks message rendering and location."""
    from pest import Parser
    from pest.grammar.exceptions import PestGrammarError

    try:
        with common.Watchdog(20):
            if optimised:
                Parser.from_grammar(text)
            else:
                Parser.from_grammar(text, optimizer=None)
        return "parser", None
    except common.Watchdog.Timeout:
        return "exc", "timeout"
    except PestGrammarError as err:
        try:
            msg = str(err)
            repr(err)
        except Exception as exc:  # noqa: BLE001
            return "exc", f"str(error) raises {type(exc).__name__}"
        m = re.search(r" -> (-?\d+):(-?\d+)\n", msg)
        if m:
            line, col = int(m.group(1)), int(m.group(2))
            lines = text.split("\n")
            nlines = len(lines)
            if not (1 <= line <= max(1, nlines)):
                return "exc", f"error points at line {line} of {nlines}"
            ln = lines[line - 1] if line - 1 < nlines else ""
            if not (0 <= col <= len(ln) + 1):
                return "exc", f"error points at column {col} of a line of length {len(ln)}"
        return "grammar-error", None
    except RecursionError:
        return "exc", "RecursionError"
    except Exception as exc:  # noqa: BLE001
        return "exc", f"{type(exc).__name__}: {str(exc)[:80]}"


def check_texts(texts, family, loader=None, optimisers=(False, True)):
    fails = []
    stats = {"evaluations": 0, "accepted": 0, "rejected": 0}
    loader = loader or load
    for text in texts:
        for optimised in optimisers:
            out, detail = loader(text, optimised)
            stats["evaluations"] += 1
            if out == "parser":
                stats["accepted"] += 1
            elif out == "grammar-error":
                stats["rejected"] += 1
                if len(text) > 300:
                    # long (file-fault) texts: scanner and parser run before the optimizer sees anything,
                    # so a text rejected without an optimizer is rejected identically with one
                    break
            else:
                fails.append({"kind": detail.split(":")[0] if detail else "exc", "family": family, "text": text, "optimizer": "default" if optimised else "none", "detail": detail})
                break
    return stats, fails


def load_limited(text: str, optimised: bool):
    """load() in a forked child with an address-space limit and a hard timeout (for texts that may exhaust memory)."""
    import json
    import resource
    import select
    import signal

    r, w = os.pipe()
    pid = os.fork()
    if pid == 0:
        os.close(r)
        try:
            resource.setrlimit(resource.RLIMIT_AS, (1 << 30, 1 << 30))
            try:
                res = load(text, optimised)
            except MemoryError:
                res = ("exc", "MemoryError")
            os.write(w, json.dumps(res).encode())
        finally:
            os._exit(0)
    os.close(w)
    ready, _, _ = select.select([r], [], [], 25)
    if not ready:
        os.kill(pid, signal.SIGKILL)
        os.waitpid(pid, 0)
        os.close(r)
        return "exc", "timeout"
    data = os.read(r, 65536)
    os.close(r)
    os.waitpid(pid, 0)
    if not data:
        return "exc", "child died without an answer"
    out, detail = json.loads(data.decode())
    return out, detail


def _chunk(payload):
    kind = payload[0]
    if kind == "strings":
        _, n, prefixes = payload
        texts = (p + "".join(t) for p in prefixes for t in itertools.product(ALPHABET, repeat=n - len(p)))
        return check_texts(texts, f"strings(len={n})")
    if kind == "soup":
        _, k, firsts = payload
        texts = (" ".join((f,) + t) for f in firsts for t in itertools.product(TOKENS, repeat=k - 1))
        return check_texts(texts, f"token-soup(k={k})")
    if kind == "file":
        _, path, fault, lo, hi = payload
        src = open(path, encoding="utf-8").read()
        rel = os.path.relpath(path, common.REPO)

        def gen():
            for i in range(lo, hi):
                if fault == "prefix":
                    yield src[:i]
                elif fault == "delete":
                    yield src[:i] + src[i + 1:]
                elif fault == "replace":
                    for c in REPL:
                        if c != src[i]:
                            yield src[:i] + c + src[i + 1:]
                elif fault == "insert":
                    for c in REPL:
                        yield src[:i] + c + src[i:]
        st, fails = check_texts(gen(), f"{fault}({rel})")
        for f in fails:
            f["file"] = rel
        return st, fails
    if kind == "escapes":
        texts = []
        hexd = "0123456789abcdefABCDEFg"
        for q, tmpl in (('"', 'r = {{ "{}" }}'), ("'", "r = {{ '{}'..'z' }}")):
            for n in range(0, 4):
                for digs in itertools.product("0aFg-+ _", repeat=n):
                    texts.append(tmpl.format("\\x" + "".join(digs)))
            for n in range(0, 8):
                for digs in (("0",) * n, ("f",) * n, ("1",) + ("0",) * (n - 1) if n else (), ("1", "1") + ("0",) * (n - 2) if n > 1 else (),
                             ("-",) + ("4",) * (n - 1) if n else (), ("+",) + ("4",) * (n - 1) if n else (), ("0", "x") + ("4",) * (n - 2) if n > 1 else (), ("4", "_") + ("1",) * (n - 2) if n > 1 else ()):
                    body = "".join(digs)
                    texts.append(tmpl.format("\\u{" + body + "}"))
                    texts.append(tmpl.format("\\u{" + body))
                    texts.append(tmpl.format("\\u" + body + "}"))
            for c in "nrt\\\"'0abfvuxz/ ":
                texts.append(tmpl.format("\\" + c))
            texts.append(tmpl.format("\\"))
        texts += ['r = { "\\u{110000}" }', 'r = { "\\u{FFFFFF}" }', 'r = { "\\u{D800}" }', "r = { '\\u{110000}'..'a' }", "r = { 'b'..'a' }", "r = { '\\u{10FFFF}'..'\\u{0}' }"]
        return check_texts(texts, "escapes")
    if kind == "semantic":
        texts = ["", " ", "\n", "//c", "//! doc", "/// doc", "/*", "a", "a =", "a = {", "a = { b", "a = { b }", "a = { a }", "a = { b }\nb = { a }", "a = _{ b* }", "a = { undefined ~ x }",
                 "a = { \"x\" }\na = { \"y\" }", "ANY = { \"x\" }", "EOI = { \"x\" }", "a = { ASCII_DIGIT{0} }", "a = { \"x\"{3,2} }", "a = { (\"\")* }", "a = { PEEK[5..2] }", "a = { PEEK[-9..] }",
                 "WHITESPACE = { \"\" }", "a = { #t = \"x\" }", "a = { PUSH(b) }", "a = { PUSH_LITERAL(b) }", "a = { !b }", "a = { s }\ns = _{ t }\nt = _{ s }",                  "a = { \"x\"{100000} }", "a = { PEEK[99999999999999999999..] }", "a = {" + "(" * 400 + "b" + ")" * 400 + "}", "a = {" + "!" * 500 + "b }", "a = { b" + "?" * 3 + " }",
                 # beyond the interpreter's recursion budget: still a PestGrammarError, never RecursionError
                 "a = {" + "(" * 700 + "b" + ")" * 700 + "}", "a = {" + "!" * 1500 + "b }", "a = {" + "&" * 1500 + "b }", "a = { b" + "?" * 2000 + " }", "a = {" + " ~ ".join(["b"] * 3000) + "}",
                 "a = {" + " | ".join(['"b"'] * 3000) + "}", "a = { " + "PUSH(" * 600 + "b" + ")" * 600 + " }",
                 # rule graphs with cycles (optimizer passes follow references)
                 "b = { b }\na = @{ (!b ~ ANY)* }", "b = { c }\nc = { b | \"x\" }\na = @{ (!b ~ ANY)* }", "a = _{ \"x\" ~ b? }\nb = _{ \"y\" ~ a? }", "a = _{ a }", "a = _{ b }\nb = _{ c }\nc = _{ a ~ \"x\" }",
                 "a = { (!a ~ ANY)* }", "s = _{ s | \"x\" }\na = { \"y\" | s }", "WHITESPACE = _{ WHITESPACE }", "COMMENT = _{ a }\na = _{ COMMENT }"]
        return check_texts(texts, "semantic")
    if kind == "pumped":
        _, units, closers, counts = payload
        texts = []
        for k in counts:
            for u in units:
                texts += [u * k, "r = { " + u * k, "r = { " + u * k + " }", 'r = { "x" } ' + u * k, u * k + ' r = { "x" }']
            for o, c in closers:
                texts += ["r = { " + o * k + "a" + c * k + " }", "r = { " + o * k + "a" + c * (k - 1) + " }", "r = { " + o * (k - 1) + "a" + c * k + " }", o * k + c * k + ' r = { "x" }']
        for k in counts:
            for u in (PUMP_POSTFIX if units and units[0] == TOKENS[0] else []):
                # chains of postfix operators and operator/operand runs after one operand
                texts += ["r = { a" + u * k + " }", 'r = @{ "a"' + u * k + ' ~ "b" }', "r = { (a" + u * k + ")+ }"]
        return check_texts(texts, "pumped", loader=load_limited)
    if kind == "long-numbers":
        # numbers with many digits at every place a number may stand (Python refuses to convert more than 4300 digits)
        sites = ["r = {{ a{{{n}}} }}", "r = {{ a{{{n},}} }}", "r = {{ a{{,{n}}} }}", "r = {{ a{{1,{n}}} }}", "r = {{ a{{{n},{n}}} }}"]
        slices = ["r = {{ PEEK[{n}..] }}", "r = {{ PEEK[..{n}] }}", "r = {{ PEEK[-{n}..] }}", "r = {{ PEEK[..-{n}] }}", "r = {{ PEEK[{n}..{n}] }}"]
        nums = [d * k for d in ("9", "1", "0") for k in (1, 10, 20, 100, 1000, 4300, 4301, 5000, 20000)] + ["0" * k + "1" for k in (20, 4300, 5000)]
        st1, f1 = check_texts([t.format(n=n) for t in sites for n in nums], "long-numbers", optimisers=(False,))   # with an optimizer: the listed huge-count finding
        st2, f2 = check_texts([t.format(n=n) for t in slices for n in nums], "long-numbers")
        return {k: st1[k] + st2[k] for k in st1}, f1 + f2
    if kind == "odd-characters":
        chars = ["\ud800", "\udfff", "\ud800\udc00", "\x00", "\x7f", "\x85", "\u2028", "\ufeff", "\uffff", "\U0010ffff", "\u00e9", "\uff10", "\u0663", "\u00b2", "\u2167", "\u0130", "\u212a", "\u00a0", "\x0b", "\x0c", "\r", "\x1c"]
        sites = ['{c} = {{ "a" }}', 'r{c} = {{ "a" }}', "r = {{ {c} }}", 'r = {{ "{c}" }}', "r = {{ '{c}' }}", "r = {{ '{c}'..'{c}' }}", 'r = {{ "\\x{c}{c}" }}', 'r = {{ "\\x4{c}" }}', 'r = {{ "\\u{{{c}{c}}}" }}',
                 'r = {{ "\\u{{4{c}}}" }}', 'r = {{ "\\{c}" }}', "r = {{ '\\{c}' }}", "r = {{ a{{{c}}} }}", "r = {{ a{{1,{c}}} }}", "r = {{ a{{{c}1}} }}", "r = {{ PEEK[{c}..] }}", "r = {{ PEEK[..{c}] }}", "r = {{ PEEK[1{c}..] }}",
                 "r = {{ #{c} = a }}", "r = {{ #t{c} = a }}", "r = {{ a }} //{c}", "r = {{ a }} /*{c}*/", "r = {{ a }} /*{c}", "//!{c}\nr = {{ a }}", "///{c}\nr = {{ a }}", "r ={c} {{ a }}", "r = {c}{{ a }}", 'r = {{ ^"{c}" }}',
                 'r = {{ PUSH_LITERAL("{c}") }}', "r = {{ a ~{c} b }}", "r = {{ a{c}b }}", "{c}", "r = {{ a }}{c}", 'r = {{ "a{c}', "r = {{ 'a'..'{c}' }}"]
        return check_texts([t.format(c=c) for t in sites for c in chars], "odd-characters")
    if kind == "rule-chains":
        # long chains of rules that each refer to the next one twice (or in a sequence, or under operators): whatever follows references -
        # optimizer passes, analyses - must not do so once per path
        texts = []
        for n in ((25, 200) if payload[1] == "quick" else (25, 200, 900)):
            for mod in (payload[2],):
                for link in ("r{j} | r{j}", "r{j} ~ r{j}", "r{j}? ~ r{j}*", "(r{j} | r{j})+", "!r{j} ~ r{j}", "#t = r{j} ~ r{j}", "PUSH(r{j}) ~ r{j}"):
                    chain = "".join(f"r{i} = {mod}{{ {link.format(j=i + 1)} }}\n" for i in range(n)) + f'r{n} = {{ "x" | "yz" }}\n'
                    for head in ("a = @{ (!r0 ~ ANY)* }\n", "a = { r0 }\n", 'WHITESPACE = _{ " " }\na = { (!r0 ~ ANY)* ~ r0 }\n'):
                        texts.append(head + chain)
        return check_texts(texts, "rule-chains", loader=load_limited)
    if kind == "case-mapping":
        # letters whose upper/lower/casefold form is LONGER than one character, in every position of a choice the optimizer analyses
        texts = []
        for c in ("\u00df", "\u0130", "\u0149", "\ufb01", "\u212a", "\u01f0", "\u1e9e", "\u0390"):
            for lit in (c, c + "a", "a" + c, c + c):
                for alts in ("'0'..'9' | ^\"{l}\"", "^\"{l}\" | '0'..'9'", "ASCII_DIGIT | ^\"{l}\"", "\"x\" | ^\"{l}\" | 'a'..'z'", "^\"{l}\" | \"{l}b\"", "\"{l}\" | ^\"{l}b\" | LETTER",
                             "ASCII_ALPHA | \"{l}\"", "'{c}'..'{c}' | ^\"{l}\""):
                    body = alts.format(l=lit, c=c)
                    texts.append(f"a = {{ {body} }}")
                    texts.append(f"a = @{{ ({body})* ~ (!({body}) ~ ANY)* }}")
                texts.append(f'WHITESPACE = _{{ ASCII_ALPHA | ^"{lit}" }}\nb = {{ "x" ~ "y" }}')
        return check_texts(texts, "case-mapping")
    if kind == "ranges":
        # every character range over a set of bounds that mean something to a regular expression or to the grammar syntax,
        # forwards and reversed (a reversed range is valid and never matches), alone and inside a choice the optimizer merges
        bounds = ["!", "#", "$", "&", "(", ")", "*", "+", ",", "-", ".", "/", "0", "9", ":", "?", "@", "A", "Z", "[", "\\\\", "]", "^", "_", "`", "a", "z", "{", "|", "}", "~", " ", "\\'", "\"", "\\x7f", "\\u{e9}", "\\u{10FFFF}", "\\0"]
        texts = []
        for a in bounds:
            for b in bounds:
                texts.append(f"r = {{ '{a}'..'{b}' }}")
                if (len(a) + len(b)) % 2 == 0:
                    texts.append(f"r = {{ '{a}'..'{b}' | \"x\" | 'c'..'e' }}")
        return check_texts(texts, "ranges")
    if kind == "huge-counts":
        texts = ['a = { "x"{99999999999999999999} }', 'a = { "x"{4294967296} }', 'a = { "x"{,4294967296} }', 'a = { "x"{4294967296,} }', 'a = { "x"{1,4294967296} }']
        return check_texts(texts, "huge-counts", loader=load_limited)
    raise ValueError(kind)


def run(tier: str) -> int:
    b = BOUNDS[tier]
    rep = common.Report("C11", tier, "fault_enumeration")
    payloads = [("escapes",), ("semantic",), ("huge-counts",), ("long-numbers",), ("odd-characters",), ("ranges",), ("case-mapping",)] + [("rule-chains", tier, m) for m in ("", "_", "@", "$")]
    for i in range(0, len(PUMP_UNITS), 3):
        payloads.append(("pumped", PUMP_UNITS[i:i + 3], [], PUMP_COUNTS[tier]))
    for oc in PUMP_CLOSERS:
        payloads.append(("pumped", [], [oc], PUMP_COUNTS[tier]))
    for n in range(0, b["N"] + 1):
        if n <= 2:
            payloads.append(("strings", n, [""]))
        else:
            pre = ["".join(t) for t in itertools.product(ALPHABET, repeat=2)]
            for i in range(0, len(pre), 12):
                payloads.append(("strings", n, pre[i:i + 12]))
    for k in range(1, b["K"] + 1):
        for i in range(0, len(TOKENS), 2 if k >= 3 else len(TOKENS)):
            payloads.append(("soup", k, TOKENS[i:i + (2 if k >= 3 else len(TOKENS))]))
    nfiles = 0
    for path in grammar_files():
        n = len(open(path, encoding="utf-8").read())
        nfiles += 1
        for fault in b["file_faults"]:
            if tier == "quick" and n > 3000 and fault == "delete":
                continue  # quick: single-character deletions only for the files up to 3000 characters
            step = 400 if fault in ("prefix", "delete") else 60
            for lo in range(0, n + (1 if fault in ("prefix", "insert") else 0), step):
                payloads.append(("file", path, fault, lo, min(n + (1 if fault in ("prefix", "insert") else 0), lo + step)))
    results = common.parallel_map(_chunk, payloads, fresh=False, order_seed=common.seed())
    agg = {"evaluations": 0, "accepted": 0, "rejected": 0}
    fails = []
    for st, fl in results:
        for k2, v in st.items():
            agg[k2] += v
        fails.extend(fl)
    # regression witnesses
    regress = 0
    for fnd in common.fixed_findings("C11"):
        for w in fnd.get("witnesses", []):
            regress += 1
            if replay_case(w, quiet=True):
                rep.violation({"family": "fixed-witness", "finding": fnd["id"], "kind": "regression", **w})
    listed = {(w["text"], w.get("optimizer", "none")): f for f in common.open_findings("C11") for w in f.get("witnesses", [])}
    fails.sort(key=lambda c: (len(c["text"]), c["text"]))
    seen = set()
    for c in fails:
        f = listed.get((c["text"], c["optimizer"]))
        if f is not None:
            rep.known(f)
            continue
        sym = (c["kind"], c["family"].split("(")[0])
        if sym in seen and len(rep.violations) >= 12:
            rep.violations.append(c)
            continue
        seen.add(sym)
        rep.violation(c)
    if os.environ.get("VERIF_TRIAGE"):
        groups: dict = {}
        for c in fails:
            groups.setdefault((c["kind"], c["detail"]), []).append(c)
        for key, cs in sorted(groups.items(), key=lambda kv: len(kv[1][0]["text"])):
            print(f"TRIAGE [{key}] x{len(cs)} smallest: {cs[0]['text'][-60:]!r} opt={cs[0]['optimizer']} family={cs[0]['family']}")
    rep.coverage = {
        "evaluations": agg["evaluations"],
        "distinct_nontrivial": agg["accepted"],
        "rule": f"(a) every string over the {len(ALPHABET)}-character grammar alphabet {ALPHABET!r} up to length N; (b) every sequence of up to K tokens from a {len(TOKENS)}-token alphabet joined by spaces (no rule frame); "
                "(c) for every bundled .pest file every prefix (truncation at every offset) and every single-character deletion (thorough: also every replacement/insertion from a 17-character set at every offset); "
                "(d) escape forms: \\x with 0-3 digits, \\u{..} with 0-7 digits, unterminated forms, values above U+10FFFF, surrogates, reversed ranges; (e) texts that are syntactically fine but semantically odd (undefined/duplicate/recursive rules, {0}, huge counts, deep nesting). "
                f"(f) pumped texts: {len(PUMP_UNITS)} units (every token, openers, unterminated literal / comment / escape starts) repeated {PUMP_COUNTS[tier]} times bare, inside a rule body and around a valid rule; {len(PUMP_CLOSERS)} nested opener/closer pairs; "
                f"{len(PUMP_POSTFIX)} postfix operator / operator-operand units chained after one operand - each load in a forked child with a 25 s deadline and a 1 GiB address space; "
                "(f2) rule chains: 25 and 200 (thorough 900) rules that each refer to the next one twice - as a choice, a sequence, under operators, predicates, tags, PUSH - under every modifier, behind three heads (the skip idiom in an atomic rule, a plain reference, the skip idiom under WHITESPACE); (g0) ranges: every character range over 38 bounds (regex metacharacters, grammar punctuation, digits, letters, escapes, U+10FFFF), forwards and reversed, alone and inside a choice the optimizer merges; (g) long numbers: 1 to 20000 digits at every repetition bound (optimizer=None) and PEEK slice bound; (h) odd characters: 22 characters (lone surrogates, NUL, C1 and Unicode line separators, BOM, non-characters, "
                "non-ASCII digits and letters with special case mappings) at 35 places of a grammar text. "
                "Each text is loaded with optimizer=None and with the default optimizer. Oracle: a Parser or PestGrammarError; str(error) renders; a shown 'L:C' has 1 <= L <= number of lines and 0 <= C <= len(line)+1; 20 s watchdog. "
                "distinct_nontrivial counts the texts that were accepted (the rest were rejected with a grammar error)",
        "samples": [{"text": t} for t in ["a = {", "r = { \"\\x4\" }", "a ~ | \"s\"", "//! doc"]],
        "exhaustive": True,
        "bounds": {"N": b["N"], "K": b["K"], "file_faults": list(b["file_faults"]), "files": nfiles},
        "accepted": agg["accepted"],
        "rejected_with_grammar_error": agg["rejected"],
        "failing_texts": len(fails),
        "fixed_witnesses_replayed": regress,
    }
    rep.assumptions = ["termination only up to a 20 s watchdog", "column base (0 or 1) is not prescribed: any column from 0 to len(line)+1 counts as existing"]
    return rep.finish()


def replay_case(case: dict, quiet: bool = False) -> bool:
    out, detail = load(case["text"], case.get("optimizer", "none") == "default")
    if not quiet:
        print("  outcome:", out, detail)
    return out == "exc"
