"""Common runner for the engine-based (grammar x input x mode) checks."""

from __future__ import annotations

import sys

from .. import attribution, common, engine, modes, validate


def show(obs):
    """Compact printable form of an observation."""
    if obs is None:
        return None
    if obs[0] == "ok":
        def f(t):
            return [[x[0], x[1], x[2]] + ([x[3]] if len(x) == 5 and x[3] else []) + [f(x[-1])] for x in t]
        return ["ok", f(obs[1])]
    return list(obs)


def replay_fixed(prop, rep, still_violates):
    """Fixed findings suppress nothing: their witnesses are replayed and must pass."""
    import contextlib
    import io

    n = 0
    for f in common.fixed_findings(prop):
        for w in f.get("witnesses", []):
            n += 1
            with contextlib.redirect_stdout(io.StringIO()):
                bad = still_violates({"property": prop, **w})
            if bad:
                rep.violation({"family": "fixed-witness", "finding": f["id"], "kind": "regression", **w})
    return n


def _replay_fixed_worker(args):
    prop, still_violates = args
    rep = common.Report(prop, "quick", "other")
    n = replay_fixed(prop, rep, still_violates)
    return n, rep.violations


def run_model_check(check, specs, tier, level, bounds, rule, assumptions=None, extra_cov=None, validate_model=True, still_violates=None, extra_violations=None):
    sys.setrecursionlimit(max(sys.getrecursionlimit(), 20000))
    rep = common.Report(check.prop, tier, level)
    pinned = 0
    if validate_model:
        pinned, bad = validate.run_validation()
        # On the unchanged tree model and implementation agree on all pinned samples, so a
        # disagreement here means the implementation changed behaviour on a pest-derived sample.
        for b in bad:
            rep.violation({"kind": "pinned-sample", "family": "pest-suite samples", "mode": "IU", "grammar": b["grammar"], "rule": b["rule"],
                           "input": b["input"], "start_pos": 0, "expected": show(b["model"]), "got": show(b["impl"])})
        pinned -= len(bad)
    for v in extra_violations or []:
        rep.violation(v)
    agg, failures, total_failures, extras = engine.run(check, specs)
    att = attribution.attribute(check.prop, failures, total_failures, rep)
    # regression witnesses run in a forked child so that the parent stays pristine
    (nfixed, regress), = common.parallel_map(_replay_fixed_worker, [(check.prop, still_violates or replay_model_case)])
    for v in regress:
        rep.violation(v)
    samples = []
    for s in common.pick_samples(specs, 4):
        samples.append({"grammar": s.text, "start_rules": list(s.starts), "inputs_example": list(s.inputs[:6]), "n_inputs": len(s.inputs), "family": s.family})
    cov = {
        "evaluations": agg.get("evaluations", 0),
        "distinct_nontrivial": agg.get("nontrivial", 0),
        "rule": rule,
        "samples": samples,
        "exhaustive": True,
        "bounds": bounds,
        "grammars": len(specs),
        "modes": list(check.modes),
        "model_accepts": agg.get("model_ok", 0),
        "model_rejects": agg.get("model_fail", 0),
        "unspec": agg.get("model_unspec", 0),
        "impl_accepts": agg.get("impl_ok", 0),
        "impl_rejects": agg.get("impl_fail", 0),
        "build_failures": agg.get("build_fail", 0),
        "failing_cases": total_failures,
        "failing_cases_examined": len(failures),
        "attribution": att,
        "fixed_witnesses_replayed": nfixed,
        "engine_wall_s": agg.get("wall_engine_s"),
        "chunks": agg.get("chunks"),
    }
    if level == "model_checking":
        # every explored case is one model trace executed against the implementation as well
        cov["states"] = agg.get("model_ok", 0) + agg.get("model_fail", 0) + agg.get("model_unspec", 0)
        cov["transitions"] = agg.get("evaluations", 0)
        cov["traces_validated_against_impl"] = agg.get("evaluations", 0) + pinned
        cov["pinned_pest_suite_samples_agreeing"] = pinned
        cov["states_note"] = "states = reference-model runs (one per grammar x rule x input x start position); transitions = implementation executions compared with them (one per mode)"
    if extra_cov:
        cov.update(extra_cov(agg, extras) if callable(extra_cov) else extra_cov)
    rep.coverage = cov
    rep.assumptions = [
        "bounded: grammars up to the stated node count, inputs up to the stated length over the stated alphabet",
        "the reference model (mc/refpeg.py) is my transcription of pest's semantics, validated on the pest-derived samples of the repository's suite; UNSPEC cases are excluded from the reference oracle",
        "CPython and the `regex` package are trusted",
    ] + list(assumptions or [])
    return rep.finish()


def replay_model_case(case: dict) -> bool:
    obs, mo = engine.replay_case(case)
    print("  impl :", show(obs))
    print("  model:", show(mo))
    if mo is None:
        return obs[0] == "exc"
    if obs[0] in ("exc", "timeout"):
        return True
    return not modes.same_outcome_as_model(obs, mo)
