"""C08: meaning-preserving grammar rewrites leave every parse result unchanged (bundled grammars, 4 modes).

Sites come from the meta-grammar's own parse tree of each bundled .pest file (every term, every
parenthesised / PUSH / rule-body expression; tagged terms are skipped).  Each rewrite is applied to
the TEXT, always parenthesised, so precedence cannot change.
"""

from __future__ import annotations

import os

from .. import common, metaref, modes, validate
from . import _grammar_check as gc

NEVER = '"\\u{E000}NEVER\\u{E000}"'
NEVER_TEXT = "NEVER"
FRESH = "zz_extracted_rule"

# grammar file -> (start rules, extra short inputs)
GRAMMARS = {
    "tests/grammars/json.pest": (["json"], ['{"a":[1,2.5e3,"x\\n",true,null]}', "[]", '{"a":{}}', "[1, 2", '{"a" 1}', "[1,]"]),
    "tests/grammars/toml.pest": (["toml"], ['a = 1\n[t]\nb = "x"\nc = [1, 2]\n', "a = 1979-05-27T07:32:00Z\n", "[[x]]\ny = { z = 1 }\n", "a = \n", "[t\n"]),
    "tests/grammars/sql.pest": (["Command"], ["select * from table", "select a, b from t where a = 1 and b > 2", "insert into t values (1, 'x')", "select a from t order by a", "select from", "select * from"]),
    "tests/grammars/http.pest": (["http"], ["GET / HTTP/1.1\r\nHost: a\r\n\r\n", "POST /x HTTP/1.0\nA: b\n\n", "GET /\n", "FOO / HTTP/1.1\n\n"]),
    "tests/grammars/lists.pest": (["lists"], ["- a\n- b\n  - c\n- d", "- a", "- a\n    - b", "-a", "- a\n - b"]),
    "examples/json/json.pest": (["json"], ['{"a":[1,2.5e3,"x\\n",true,null]}', "[]", '{"a":{}}', "[1, 2", "[1,]", "1"]),
    "examples/calculator/calculator.pest": (["program"], ["1 + 2 * 3", "-(3!)", "2 ^ 3 ^ 2", "x * (y + 1)!", "1 +", "1 + * 2", "--x!!"]),
    "examples/calculator/grammar_encoded_prec.pest": (["program"], ["1 + 2 * 3", "-(3!)", "2 ^ 3 ^ 2", "x * (y + 1)!", "1 +", "1 + * 2", "--x!!"]),
    "examples/jsonpath/jsonpath.pest": (["jsonpath"], ["$", "$.a", "$['a']", "$[0]", "$[1:3]", "$..a", "$[*]", "$[?@.a == 1]", "$.a[?(@.b > 2 && @.c)]", "$[?count(@.a) > 1]", "$[0, 'a', 1:2]", "$.", "$[", "a", "$[?@.a ==]"]),
    "examples/ini/ini.pest": (["file"], ["a=1\n[s]\nb=2\n", "[s]\n", "a=\n", "a\n", "[s\n"]),
    "examples/csv/csv.pest": (["file"], ["1,2\n3,4\n", "1\n", "1,\n", "a\n", ""]),
}
# Small grammars written for this check: constructs that none of the bundled grammars holds (stack operations that replace an entry,
# case-insensitive keywords and stops, the skip idiom, tags, bounded repetitions, compound-atomic rules).  The statement's first sentence
# is about every grammar; the bundled ones are its named corpus.
SYNTHETIC = {
    "synthetic:stack": (
        'doc = { SOI ~ item* ~ EOI }\nitem = { fenced | swap | ind | ";" }\nfenced = { PUSH(fence) ~ body ~ POP }\nfence = { "`"+ }\nbody = { (!PEEK ~ ANY)* }\n'
        'swap = { PUSH("a") ~ (POP ~ PUSH("b"))? ~ POP }\nind = { PUSH(" "+) ~ "x" ~ (NEWLINE ~ PEEK_ALL ~ "y")* ~ DROP }\n'
        'look = { PUSH_LITERAL("a") ~ &POP ~ x ~ POP | PUSH("b") ~ &DROP ~ PEEK ~ !POP ~ DROP ~ "!" | PUSH_LITERAL("c") ~ &PUSH_LITERAL("d") ~ POP ~ &POP_ALL ~ "." }\nx = { "a" }\n',
        ["doc", "swap", "fenced", "look"], ["`a`", "``a`b``", "aabb", "aa", "`a`;aabb; x\n y", " x\n y\n y;", "``a`", "aab", " x\n  y", ";;", "", "bb!", "bb", "c.", "cd.", "a"]),
    "synthetic:keywords": (
        'WHITESPACE = _{ " " }\nprog = { SOI ~ stmt* ~ EOI }\nstmt = { block | cond | word }\nblock = { ^"begin" ~ body ~ ^"end" }\nbody = ${ (!^"end" ~ ANY)* }\n'
        'cond = { ^"if" ~ #c = word ~ (^"then" ~ #t = (word)+)? ~ ";" }\npairx = { #p = (word ~ word?) ~ ":" ~ #q = (word ~ &word ~ word | word) ~ ";" }\nflags = { ("+" | "-")* ~ #s = sil ~ (\'0\'..\'9\' | "_")+ ~ ";" }\nsil = _{ word }\nword = @{ !(^"begin" | ^"end" | ^"if" | ^"then") ~ ASCII_ALPHA{1,3} ~ ASCII_DIGIT{,2} }\n',
        ["prog", "block", "cond", "pairx", "flags"], ["+ -ab 1 _;", "+-a1;", "ab 1;", "+ - ;", "a b:c;", "a:b c;", "a:b;", "a b:c", "begin x End", "BEGIN end", "begin en END", "if a then b c;", "IF ab1 ;", "if a then;", "begin x", "if then;", "abc d12 e", "abcd", "begin if End", ""]),
}
EXAMPLE_FILES = {
    "tests/grammars/json.pest": ["tests/examples/example.json"], "tests/grammars/toml.pest": ["tests/examples/example.toml"], "tests/grammars/http.pest": ["tests/examples/example.http"],
    "examples/json/json.pest": ["examples/json/example.json"], "examples/ini/ini.pest": ["examples/ini/example.ini"], "examples/csv/csv.pest": ["examples/csv/example.csv"],
}
BIG = {"tests/grammars/sql.pest", "examples/jsonpath/jsonpath.pest"}
# quick: both interpreters only for these (exec of their generated modules dominates the budget); thorough: four modes everywhere
QUICK_INTERP_ONLY = BIG | {"tests/grammars/json.pest", "examples/json/json.pest", "tests/grammars/toml.pest"}


def read_grammar(gpath):
    if gpath in SYNTHETIC:
        return SYNTHETIC[gpath][0]
    return open(os.path.join(common.REPO, gpath), encoding="utf-8").read()


def sites_of(text):
    """[(kind, start, end, extra)] from the meta-grammar's parse tree. kind in term | expr | seqrun | altrun."""
    orc = metaref.oracle()
    tree = orc.tree(text)
    if tree is None:
        raise common.HarnessError("meta-grammar rejects a bundled grammar")
    out = []

    def walk_expr(p):
        out.append(("expr", p[1], p[2], None))
        alts = [[]]
        first = True
        for k in p[3]:
            if k[0] == "choice_operator":
                if not first:
                    alts.append([])
            elif k[0] == "term":
                alts[-1].append(k)
                walk_term(k)
            first = False
        for a in alts:
            if len(a) >= 3:
                out.append(("seqrun", a[0][1], a[-1][2], [(t[1], t[2]) for t in a]))
        if len(alts) >= 3 and all(alts):
            out.append(("altrun", alts[0][0][1], alts[-1][-1][2], [(a[0][1], a[-1][2]) for a in alts]))

    def walk_term(p):
        kids = p[3]
        tagged = any(k[0] == "tag_id" for k in kids)
        if not tagged:
            out.append(("term", p[1], p[2], None))
            # the operand alone, when the term carries prefix or postfix operators: &POP -> &(POP), x* -> (x)*
            ops = [k for k in kids if k[0].endswith("_operator") or k[0].startswith("repeat_")]
            node = [k for k in kids if k not in ops and k[0] not in ("tag_id",)]
            if ops and node:
                out.append(("term", node[0][1], node[-1][2], None))
        else:
            # a tagged term: the operand alone (#t = x -> #t = (x)); the tag stays where it is
            node = [k for k in kids if k[0] not in ("tag_id", "assignment_operator") and not (k[0].endswith("_operator") or k[0].startswith("repeat_"))]
            if node:
                out.append(("term", node[0][1], node[-1][2], None))
        for k in kids:
            if k[0] == "expression":
                walk_expr(k)
            elif k[0] == "_push":
                for c in k[3]:
                    if c[0] == "expression":
                        walk_expr(c)

    for p in tree:
        if p[0] == "grammar_rule":
            for k in p[3]:
                if k[0] == "expression":
                    walk_expr(k)
    return out


def rewrites_of(text, site):
    """Yield (kind, new grammar text) for one site."""
    kind, s, e, extra = site
    src = text[s:e]
    if kind in ("term", "expr"):
        yield "parens", text[:s] + "(" + src + ")" + text[e:]
        yield "dup-choice", text[:s] + "((" + src + ") | (" + src + "))" + text[e:]
        yield "never-seq", text[:s] + "(((" + src + ") ~ " + NEVER + ") | (" + src + "))" + text[e:]
        yield "never-not", text[:s] + "((!(" + src + ") ~ " + NEVER + ") | (" + src + "))" + text[e:]
        yield "extract", text[:s] + FRESH + text[e:] + "\n" + FRESH + " = _{ " + src + " }\n"
    elif kind == "seqrun":
        parts = [text[a:b] for a, b in extra]
        for k in range(1, len(parts)):
            left, right = parts[:k], parts[k:]
            lt = " ~ ".join(left)
            rt = " ~ ".join(right)
            yield f"reassoc-seq@{k}", text[:s] + ("(" + lt + ")" if len(left) > 1 else lt) + " ~ " + ("(" + rt + ")" if len(right) > 1 else rt) + text[e:]
    elif kind == "altrun":
        parts = [text[a:b] for a, b in extra]
        for k in range(1, len(parts)):
            left, right = parts[:k], parts[k:]
            lt = " | ".join(left)
            rt = " | ".join(right)
            yield f"reassoc-alt@{k}", text[:s] + ("(" + lt + ")" if len(left) > 1 else lt) + " | " + ("(" + rt + ")" if len(right) > 1 else rt) + text[e:]


BASIC = ("parens", "dup-choice", "never-seq", "never-not", "extract")
# combinations: grammar files small enough to afford them, per tier
COMBO_FILES = {
    "quick": ("examples/csv/csv.pest", "examples/ini/ini.pest", "tests/grammars/lists.pest", "synthetic:stack", "synthetic:keywords"),
    "thorough": ("examples/csv/csv.pest", "examples/ini/ini.pest", "tests/grammars/lists.pest", "tests/grammars/http.pest", "examples/calculator/calculator.pest",
                 "examples/calculator/grammar_encoded_prec.pest", "examples/json/json.pest", "tests/grammars/json.pest", "synthetic:stack", "synthetic:keywords"),
}
COMBO_KINDS = {"quick": ("never-seq", "never-not", "extract"), "thorough": BASIC}


def wrap(kind, src, fresh):
    """(replacement text, rules to append) for one basic rewrite of the expression text src."""
    if kind == "parens":
        return "(" + src + ")", ""
    if kind == "dup-choice":
        return "((" + src + ") | (" + src + "))", ""
    if kind == "never-seq":
        return "(((" + src + ") ~ " + NEVER + ") | (" + src + "))", ""
    if kind == "never-not":
        return "((!(" + src + ") ~ " + NEVER + ") | (" + src + "))", ""
    if kind == "extract":
        return fresh, "\n" + fresh + " = _{ " + src + " }\n"
    raise ValueError(kind)


def combos_of(text, sites, gpath, tier):
    """Combinations of rewrites: (a) nested - a second rewrite applied to the result of the first, at every site;
    (b) at once - one kind applied to every literal site of the file simultaneously (all files);
    (c) pairs - every two sites of one rule body that do not overlap, both rewritten (thorough, same kind on both and never-seq + never-not)."""
    plain = [(i, st) for i, st in enumerate(sites) if st[0] in ("term", "expr")]
    if gpath in COMBO_FILES[tier]:
        ks = COMBO_KINDS[tier]
        for si, (kind, s, e, _) in plain:
            src = text[s:e]
            for k1 in ks:
                r1, x1 = wrap(k1, src, FRESH + "_1")
                for k2 in ks:
                    r2, x2 = wrap(k2, r1, FRESH + "_2")
                    yield si, f"nested:{k1}+{k2}", text[:s] + r2 + text[e:] + x1 + x2
    # leaves: sites that contain no other site
    leaves = [(si, st) for si, st in plain if not any(o is not st and st[1] <= o[1] and o[2] <= st[2] and (o[1], o[2]) != (st[1], st[2]) for _, o in plain)]
    uniq: dict = {}
    for si, st in leaves:
        uniq.setdefault((st[1], st[2]), (si, st))
    # terminals only: doubling every rule REFERENCE of a recursive grammar at once makes parsing exponential in the nesting depth
    leaves = [x for x in uniq.values() if text[x[1][1]] in "\"'^"]
    leaves = sorted(leaves, key=lambda x: x[1][1], reverse=True)
    if leaves:
        for k in BASIC:
            new, extra = text, ""
            for n, (si, (kind, s, e, _)) in enumerate(leaves):
                r, x = wrap(k, text[s:e], f"{FRESH}_{n}")
                new = new[:s] + r + new[e:]
                extra += x
            yield leaves[-1][0], f"at-once:{k}x{len(leaves)}", new + extra
    if tier == "thorough" and gpath in COMBO_FILES[tier]:
        for ai in range(len(plain)):
            for bi in range(ai + 1, len(plain)):
                (sa, a), (sb, b) = plain[ai], plain[bi]
                if not (a[2] <= b[1] or b[2] <= a[1]):
                    continue
                first, second = (a, b) if a[1] < b[1] else (b, a)
                if second[1] - first[2] > 60:
                    continue  # nearby sites only (same rule body, by and large)
                for k1, k2 in (("never-seq", "never-seq"), ("never-not", "never-not"), ("dup-choice", "dup-choice"), ("extract", "extract"), ("never-seq", "never-not"), ("never-not", "never-seq")):
                    r2, x2 = wrap(k2, text[second[1]:second[2]], FRESH + "_2")
                    r1, x1 = wrap(k1, text[first[1]:first[2]], FRESH + "_1")
                    new = text[:second[1]] + r2 + text[second[2]:]
                    new = new[:first[1]] + r1 + new[first[2]:]
                    yield sa, f"pair:{k1}+{k2}@{first[1]},{second[1]}", new + x1 + x2


def all_jobs(text, gpath, tier):
    sites = sites_of(text)
    jobs = []
    for si, site in enumerate(sites):
        for kind, new in rewrites_of(text, site):
            jobs.append((si, site, kind, new))
    for si, kind, new in combos_of(text, sites, gpath, tier):
        jobs.append((si, sites[si], kind, new))
    return sites, jobs


def corpus(gpath, tier):
    starts, shorts = GRAMMARS[gpath] if gpath in GRAMMARS else SYNTHETIC[gpath][1:]
    ins = list(shorts)
    for f in EXAMPLE_FILES.get(gpath, []) if tier == "thorough" else []:
        fp = os.path.join(common.REPO, f)
        if os.path.exists(fp):
            ins.append(open(fp, encoding="utf-8").read())
    for g, rule, text in validate.extract_samples():
        if os.path.relpath(g, common.REPO) == gpath and rule in starts and text not in ins:
            ins.append(text)
    base = list(ins)
    limit = 24 if tier == "quick" else 60
    for t in base:
        if 0 < len(t) <= limit:
            for k in range(len(t)):
                p = t[:k]
                if p not in ins:
                    ins.append(p)
                if tier == "thorough":
                    d = t[:k] + t[k + 1:]
                    if d not in ins:
                        ins.append(d)
    if any(NEVER_TEXT in t for t in ins):
        raise common.HarnessError("the NEVER literal occurs in a corpus input")
    return starts, ins


def _worker(payload):
    gpath, lo, hi, mode_list, tier = payload
    text = read_grammar(gpath)
    starts, ins = corpus(gpath, tier)
    sites, jobs = all_jobs(text, gpath, tier)
    jobs = jobs[lo:hi]
    stats = {"evaluations": 0, "rewrites": 0, "nontrivial": 0}
    fails = []
    ordered = [m for m in ("IU", "GU", "IO", "GO") if m in mode_list]
    base: dict = {}
    built: dict = {}
    # unoptimised work first (baseline and rewrites), then optimised
    for phase in (("IU", "GU"), ("IO", "GO")):
        for mode in phase:
            if mode not in ordered:
                continue
            p0 = modes.build(text, mode)
            base[mode] = {(r, t): modes.observe(p0, r, t) for r in starts for t in ins}
            for ji, (si, site, kind, new) in enumerate(jobs):
                try:
                    p = modes.build(new, mode)
                except Exception as exc:  # noqa: BLE001
                    fails.append({"kind": f"build-exc:{type(exc).__name__}", "mode": mode, "grammar_file": gpath, "site": [site[0], site[1], site[2]], "rewrite": kind, "input": "", "rule": "", "detail": str(exc)[:200], "grammar": new})
                    continue
                if mode == ordered[0]:
                    stats["rewrites"] += 1
                for (r, t), ob in base[mode].items():
                    oo = modes.observe(p, r, t)
                    stats["evaluations"] += 1
                    if mode == ordered[0] and ob[0] == "ok":
                        stats["nontrivial"] += 1
                    same = (ob[0] == oo[0]) and (ob[0] != "ok" or ob == oo)
                    if not same:
                        fails.append({"kind": "tree" if ob[0] == oo[0] == "ok" else "outcome", "mode": mode, "grammar_file": gpath, "site": [site[0], site[1], site[2]], "site_text": text[site[1]:site[2]][:80],
                                      "rewrite": kind, "rule": r, "input": t, "expected": gc.show(ob) if len(t) < 60 else ob[0], "got": gc.show(oo) if len(t) < 60 else oo[0], "grammar": new})
    fails.sort(key=lambda c: (len(c["input"]), c["site"][2] - c["site"][1], c["mode"]))
    return stats, fails[:100], len(fails)


def n_jobs(gpath, tier):
    text = read_grammar(gpath)
    sites, jobs = all_jobs(text, gpath, tier)
    return len(jobs), len(sites), sum(1 for j in jobs if j[2].split(":")[0] in ("nested", "at-once", "pair"))


def run(tier: str) -> int:
    import sys

    sys.setrecursionlimit(max(sys.getrecursionlimit(), 20000))
    rep = common.Report("C08", tier, "exploration")
    payloads = []
    nsites = 0
    njobs = 0
    ncombo = 0
    for gpath in list(GRAMMARS) + list(SYNTHETIC):
        if gpath not in SYNTHETIC and not os.path.exists(os.path.join(common.REPO, gpath)):
            continue
        nj, ns, nc = n_jobs(gpath, tier)
        nsites += ns
        njobs += nj
        ncombo += nc
        mode_list = ("IU", "IO") if (tier == "quick" and gpath in QUICK_INTERP_ONLY) else modes.MODES
        step = 25 if gpath in BIG else 40
        for lo in range(0, nj, step):
            payloads.append((gpath, lo, min(nj, lo + step), mode_list, tier))
    results = common.parallel_map(_worker, payloads, fresh=True, order_seed=common.seed())
    agg = {"evaluations": 0, "rewrites": 0, "nontrivial": 0}
    fails, total = [], 0
    for st, fl, tot in results:
        for k, v in st.items():
            agg[k] += v
        fails.extend(fl)
        total += tot
    listed = {}
    for fd in common.open_findings("C08"):
        for w in fd.get("witnesses", []):
            listed[(w["grammar_file"], tuple(w["site"]), w["rewrite"], w["mode"])] = fd
    fails.sort(key=lambda c: (len(c["input"]), c["site"][2] - c["site"][1], c["grammar_file"], c["mode"]))
    seen = set()
    for c in fails:
        fd = listed.get((c["grammar_file"], tuple(c["site"]), c["rewrite"], c["mode"]))
        if fd is not None:
            rep.known(fd)
            continue
        sym = (c["kind"], c["mode"], c["rewrite"].split("@")[0].split("x")[0], c["grammar_file"])
        if sym in seen and len(rep.violations) >= 15:
            rep.violations.append(c)
        else:
            seen.add(sym)
            rep.violation({"family": "rewrites", **c})
    if os.environ.get("VERIF_TRIAGE"):
        groups: dict = {}
        for c in fails:
            groups.setdefault((c["grammar_file"], c["rewrite"].split("@")[0], c["mode"], c["kind"]), []).append(c)
        for key, cs in sorted(groups.items()):
            print(f"TRIAGE {key} x{len(cs)}: site={cs[0].get('site_text')!r} input={cs[0]['input'][:40]!r} expected={str(cs[0].get('expected'))[:120]} got={str(cs[0].get('got'))[:120]}")
    regress = 0
    for fd in common.fixed_findings("C08"):
        for w in fd.get("witnesses", []):
            regress += 1
            if replay_case(w, quiet=True):
                rep.violation({"family": "fixed-witness", "finding": fd["id"], "kind": "regression", **w})
    rep.coverage = {
        "evaluations": agg["evaluations"],
        "distinct_nontrivial": agg["nontrivial"],
        "rule": "for each bundled grammar (tests: json, toml, sql, http, lists; examples: json, calculator x2, jsonpath, ini, csv) and two small grammars written for this check "
                "(stack operations that replace an entry, fences and indentation; case-insensitive keywords and stops, the skip idiom, tags, bounded repetitions, atomic and compound-atomic rules, implicit whitespace) every site of the meta-grammar's parse tree of the file - every untagged term (as a whole, and its operand alone when it carries prefix or postfix operators; of a tagged term only the operand), every rule-body / parenthesised / PUSH expression, "
                "every run of >= 3 sequence terms or alternatives - x the rewrite kinds: (e); (e) | (e); ((e) ~ NEVER) | (e); (!(e) ~ NEVER) | (e); extraction into a fresh silent rule; every re-association split of ~ and | runs. "
                "Combinations: (a) nested - a second rewrite applied to the result of a first one at the same site, every ordered pair of kinds, on the smaller grammars (quick: csv, ini, lists and the two synthetic grammars with three kinds; thorough: also http, both calculators, both json with five kinds); "
                "(b) at once - one kind applied simultaneously to every literal (string, insensitive string, character range) of the file, all files; (c) thorough: every two nearby non-overlapping sites both rewritten (six kind pairs). "
                "Inputs: the repository's example files (thorough), the inputs of the pest-derived tests, short hand-written valid and invalid inputs per start rule, and every proper prefix of each short input (thorough: also every single-character deletion). "
                "Oracle: same outcome and same tree as the unrewritten grammar in the same mode (failure positions are not compared: a NEVER literal legitimately moves them). "
                "quick: four modes for http, lists, ini, csv and the calculators, both interpreters for json, toml, sql, jsonpath, and without the large example files; thorough: four modes and all inputs everywhere. Non-trivial: the unrewritten grammar accepts the input",
        "samples": [{"grammar_file": "examples/csv/csv.pest", "site_text": "field ~ (\",\" ~ field)*", "rewrite": "never-not"}],
        "exhaustive": True,
        "sites": nsites,
        "rewritten_grammars": njobs,
        "of_which_combinations": ncombo,
        "children": len(payloads),
        "failing_cases": total,
        "fixed_witnesses_replayed": regress,
    }
    rep.assumptions = ["combinations are enumerated up to two rewrites (nested at one site, or at two nearby sites) plus one all-leaves-at-once grammar per kind; larger combinations are not", "the NEVER literal is verified to occur in no corpus input"]
    return rep.finish()


def replay_case(case: dict, quiet: bool = False) -> bool:
    gpath = case["grammar_file"]
    text = read_grammar(gpath)
    mode = case["mode"]
    p0 = modes.build(text, mode)
    p1 = modes.build(case["grammar"], mode)
    a = modes.observe(p0, case["rule"], case["input"])
    b = modes.observe(p1, case["rule"], case["input"])
    if not quiet:
        print("  original :", gc.show(a) if len(case["input"]) < 80 else a[0])
        print("  rewritten:", gc.show(b) if len(case["input"]) < 80 else b[0])
    return not ((a[0] == b[0]) and (a[0] != "ok" or a == b))
