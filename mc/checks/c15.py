"""C15: parsers are isolated, reusable and re-entrant.

(a) Histories: explicit-state search over all histories of creating parsers (unoptimised, default
    optimizer, custom passes), generating code and calling parse() (succeeding / failing) for two
    grammars that share built-ins and rule names; every history is replayed from scratch in a forked
    pristine child and then probed; every probe must equal the observation of the same call in a child
    whose only history is the creation of that one parser.
(b) Schedules: the cooperative scheduler of mc/sched.py on two threads sharing one parser object.
"""

from __future__ import annotations

import itertools
import os

from .. import common, modes, sched

G = {
    "g1": 'r = { ASCII_HEX_DIGIT+ ~ "x" ~ (NEWLINE | UPPERCASE_LETTER)? }\ns = { ("a" | "b" | ASCII_ALPHA)+ ~ "!" }\nt = _{ "a" | "ab" }\nu = { "a" | !"b" ~ ANY | &"c" ~ "cd" }\n',
    "g2": 'r = { ASCII_ALPHA ~ ASCII_HEX_DIGIT* ~ NEWLINE }\ns = { "q" ~ UPPERCASE_LETTER ~ t }\nt = _{ ASCII_DIGIT | "z" }\nu = { ("c" | !"d" ~ ANY)* ~ "d" }\n',
}
# second pool: what the first one lacks - implicit WHITESPACE, a grammar rule that is itself called SKIP (the optimizer's own rule name),
# the (!stop ~ ANY)* idiom in a non-atomic rule under trivia (g3) and without trivia, evaluated twice per parse (g4), a tagged reference
G.update({
    "g3": 'WHITESPACE = _{ " " }\nSKIP = { "s" }\nr = { (!"b" ~ ANY)* ~ "b" }\ns = { SKIP ~ #t = u ~ "b" }\nt = _{ "a" | "ab" }\nu = { (!("b" | "ab") ~ ANY)* }\n',
    # g5: implicit whitespace that is a choice of literals (the optimizer fuses it into one repeated pattern) next to an ordinary choice
    # with the same alternatives, and the same choice named explicitly in an atomic rule
    "g5": 'WHITESPACE = _{ " " | "\\t" }\nr = { "x" ~ "y" }\ns = { (" " | "\\t") ~ "z" }\nt = _{ "a" }\nu = @{ "x" ~ WHITESPACE ~ "y" }\n',
    "g4": 'r = { f ~ (";" ~ f)* }\nf = { (!";" ~ ANY)* }\ns = @{ (!^"ab" ~ ANY)* ~ ^"AB" }\nt = _{ "x" }\nu = { ("a" | !"b" ~ ANY)+ ~ &"b" }\n',
})
G.update({
    # case-insensitive literals that differ only in the case of a NON-ASCII letter (which is not ignored) or that Unicode folding would identify
    "g6": 'r = { ^"\u00e9" ~ "x" }\ns = { ^"k\u00e9" | "!" }\nt = _{ "a" }\nu = { (^"ss" | "z")+ }\n',
    "g7": 'r = { ^"\u00c9" ~ "x" }\ns = { ^"\u212a\u00c9" | "!" }\nt = _{ "a" }\nu = { (^"\u00df" | "z")+ }\n',
})
POOLS = (("g1", "g2"), ("g3", "g4"), ("g3", "g5"), ("g6", "g7"))
PROBES = {
    "g1": [("r", "1fx\n"), ("r", "zx"), ("r", "1f"), ("s", "abZ!"), ("s", "ab1"), ("s", ""), ("u", "b"), ("u", "x"), ("u", "c")],
    "g2": [("r", "aF0\n"), ("r", "aG"), ("r", "1"), ("s", "qQ7"), ("s", "qq"), ("s", "q"), ("u", "xd"), ("u", "xc"), ("u", "")],
    "g3": [("r", "  bb"), ("r", " a"), ("r", " b"), ("s", "s ab b"), ("s", "s a"), ("s", ""), ("u", " x b"), ("u", "xab"), ("r", "a b")],
    "g6": [("r", "\u00e9x"), ("r", "\u00c9x"), ("r", "ex"), ("s", "K\u00e9"), ("s", "k\u00c9"), ("s", "\u212a\u00e9"), ("u", "sSz"), ("u", "\u00df"), ("u", "")],
    "g7": [("r", "\u00c9x"), ("r", "\u00e9x"), ("r", "Ex"), ("s", "\u212a\u00c9"), ("s", "k\u00c9"), ("s", "K\u00e9"), ("u", "\u00dfz"), ("u", "ss"), ("u", "")],
    "g5": [("r", "x  y"), ("s", "z"), ("s", "  z"), ("s", " z"), ("u", "xy"), ("u", "x y"), ("u", "x  y"), ("r", "x\ty"), ("r", "xy")],
    "g4": [("r", "a;b"), ("r", "a;b"), ("r", ";;"), ("s", "xaBAb"), ("s", "xa"), ("s", "Ab"), ("u", "c"), ("u", "aab"), ("f", "a;b")],
}
KINDS = ("U", "O", "C")
BOUNDS = {"quick": {"depth": 3, "preemptions": 1, "free_iterations": 200, "two_state_depth": 7}, "thorough": {"depth": 4, "preemptions": 2, "free_iterations": 2000, "two_state_depth": 9}}


class TwoStates:
    """(c) Two ParserState objects - the per-parse states of two concurrent parse() calls - driven by every
    interleaving of their operations; each must keep behaving like its own full-copy reference.  Anything mutable
    that the two objects share (a class-level list, a module-level scratch) shows as a divergence."""

    name = "TwoParserStates"

    def __init__(self):
        from . import c09

        self.m = c09.StateMachine()
        self.ops = tuple(f"{w}.{o}" for w in "AB" for o in self.m.ops)

    def new(self):
        a, ra = self.m.new()
        b, rb = self.m.new()
        return (a, b), {"A": ra, "B": rb}

    def enabled(self, impl, ref):
        out = []
        for i, w in enumerate("AB"):
            # a reduced menu per state keeps the product small: snapshots, restores, the counter and one stack
            for o in self.m.enabled(impl[i], ref[w]):
                if o in ("checkpoint", "ok", "restore", "push", "drop", "atomic_inc", "atomic_zero"):
                    out.append(f"{w}.{o}")
        return out

    def apply(self, impl, ref, op):
        w, o = op.split(".")
        i = "AB".index(w)
        self.m.apply(impl[i], ref[w], o)

    def observe(self, impl):
        return (self.m.observe(impl[0]), self.m.observe(impl[1]))

    def expect(self, ref):
        return (self.m.expect(ref["A"]), self.m.expect(ref["B"]))

    def internal_object(self, impl):
        return list(impl)


def make(kind, g):
    from pest import DEFAULT_OPTIMIZER_PASSES, Optimizer, Parser

    if kind == "U":
        return Parser.from_grammar(G[g], optimizer=None)
    if kind == "O":
        return Parser.from_grammar(G[g])
    return Parser.from_grammar(G[g], optimizer=Optimizer([DEFAULT_OPTIMIZER_PASSES[3], DEFAULT_OPTIMIZER_PASSES[2], DEFAULT_OPTIMIZER_PASSES[4]]))


def ops_menu(pool=POOLS[0]):
    ops = [("mk", k, g) for g in pool for k in KINDS]
    ops += [("gen", g) for g in pool] + [("ok", g) for g in pool] + [("bad", g) for g in pool] + [("neg", g) for g in pool]
    return ops


def enabled(history, pool=POOLS[0]):
    have = {op[2] for op in history if op[0] == "mk"}
    return [op for op in ops_menu(pool) if op[0] == "mk" or op[1] in have]


def pool_of(history):
    used = {(op[2] if op[0] == "mk" else op[1]) for op in history}
    for pool in POOLS:
        if used <= set(pool):
            return pool
    return POOLS[0]


def probe(obj, g):
    return tuple(modes.observe(obj, r, t, detail=True) for r, t in PROBES[g])


def fingerprint():
    """Global-state fingerprint (used to COUNT distinct states, never to decide or prune)."""
    from pest import DEFAULT_OPTIMIZER, Parser

    try:
        table = tuple((n, type(r.expression).__name__, str(r.expression)[:60]) for n, r in sorted(Parser.BUILTIN.items()))
        return hash((table, len(DEFAULT_OPTIMIZER.log)))
    except Exception:  # noqa: BLE001
        raise common.HarnessError("cannot read the built-in table for the state fingerprint") from None


def replay(history):
    """Run a history from a pristine process state; return the created objects [(label, kind, g, obj)]."""
    objs = []
    last = {}
    for op in history:
        if op[0] == "mk":
            p = make(op[1], op[2])
            objs.append((f"{op[1]}:{op[2]}#{len(objs)}", op[1], op[2], p))
            last[op[2]] = (op[1], p)
        elif op[0] == "gen":
            k, p = last[op[1]]
            m = modes.Generated(p.generate())
            objs.append((f"G{k}:{op[1]}#{len(objs)}", "G" + k, op[1], m))
        elif op[0] == "ok":
            modes.observe(last[op[1]][1], *PROBES[op[1]][0])
        elif op[0] == "bad":
            modes.observe(last[op[1]][1], *PROBES[op[1]][1])
        elif op[0] == "neg":
            # a parse whose furthest failure is recorded by a negative predicate after an ordinary one at the same position
            modes.observe(last[op[1]][1], *PROBES[op[1]][6])
    return objs


def _reference(_):
    """Observation of every (kind, grammar) in a child whose only history is the creation of that parser."""
    raise common.HarnessError("unused")


def _ref_one(payload):
    kind, g = payload
    base = kind[-1]
    p = make(base, g)
    obj = modes.Generated(p.generate()) if kind.startswith("G") else p
    return (kind, g), probe(obj, g)


def _history_worker(payload):
    histories, ref = payload
    out = []
    for h in histories:
        # each history in its own forked grandchild: live parser objects do not copy, process state must be pristine
        r, w = os.pipe()
        pid = os.fork()
        if pid == 0:
            os.close(r)
            try:
                import pickle

                objs = replay(h)
                fp_after = fingerprint()
                bad = []
                for label, kind, g, obj in objs:
                    got = probe(obj, g)
                    if got != ref[(kind, g)]:
                        bad.append((label, got, ref[(kind, g)]))
                # parsers created AFTER the history must be unaffected by it as well
                for g in pool_of(h):
                    for kind in ("U", "O", "GU", "GO"):
                        p = make(kind[-1], g)
                        obj = modes.Generated(p.generate()) if kind.startswith("G") else p
                        got = probe(obj, g)
                        if got != ref[(kind, g)]:
                            bad.append((f"fresh {kind}:{g}", got, ref[(kind, g)]))
                os.write(w, pickle.dumps((fp_after, bad)))
            except BaseException as exc:  # noqa: BLE001
                import pickle

                os.write(w, pickle.dumps(("error", f"{type(exc).__name__}: {exc}")))
            finally:
                os._exit(0)
        os.close(w)
        chunks = []
        while True:
            b = os.read(r, 1 << 16)
            if not b:
                break
            chunks.append(b)
        os.close(r)
        os.waitpid(pid, 0)
        import pickle

        res = pickle.loads(b"".join(chunks))
        out.append((h, res))
    return out


# ----------------------------------------------------------------------------- schedules

def harnesses():
    """name -> (make_bodies, atomic thread indices)."""
    hs = {}

    def shared(kind, g, generated):
        def mk():
            p = make(kind, g)
            obj = modes.Generated(p.generate()) if generated else p
            (r1, t1), (r2, t2) = PROBES[g][0], PROBES[g][1]
            return [lambda: modes.observe(obj, r1, t1, detail=True), lambda: modes.observe(obj, r2, t2, detail=True)]
        return mk

    hs["parse||parse interpreter unoptimised"] = (shared("U", "g1", False), ())
    hs["parse||parse generated"] = (shared("U", "g1", True), ())
    hs["parse||parse interpreter optimised (lazy regex)"] = (shared("O", "g1", False), ())
    hs["parse||parse optimised, bounded repetition"] = (lambda: (lambda p: [lambda: modes.observe(p, "r", "aa", detail=True), lambda: modes.observe(p, "r", "ab", detail=True)])(
        __import__("pest").Parser.from_grammar('r = { "a"{1,2} ~ EOI }\n', optimizer=None)), ())

    TG = ('WHITESPACE = _{ " " }\nCOMMENT = _{ "#" ~ (!"!" ~ ANY)* ~ "!" }\n'
          'tight = @{ "-"? ~ "a" ~ "b" }\nloose = { "-"? ~ "a" ~ "b" }\n')

    TINY = 'WHITESPACE = _{ " " }\ntight = @{ "-"? ~ "a" ~ "b" }\nloose = { "-"? ~ "a" ~ "b" }\n'

    def trivia(text, kind, generated, second, first=("tight", "a b")):
        def mk():
            from pest import Parser

            p = Parser.from_grammar(text, optimizer=None) if kind == "U" else Parser.from_grammar(text)
            obj = modes.Generated(p.generate()) if generated else p
            return [lambda: modes.observe(obj, first[0], first[1], detail=True), lambda: modes.observe(obj, "loose", second, detail=True)]
        return mk

    # fresh shared parser per execution (so anything initialised lazily on first use is initialised under
    # contention), implicit trivia in BOTH threads
    hs["trivia+comment: loose || loose, fresh interpreter unoptimised"] = (trivia(TG, "U", False, "a #c! b", ("loose", "-a b")), ())
    hs["trivia+comment: loose || loose, fresh interpreter optimised"] = (trivia(TG, "O", False, "a #c! b", ("loose", "-a b")), ())
    # tiny: small enough for preemption bound 2 in the quick tier (a snapshot list shared between the states of
    # two threads needs two switches to go wrong: A snapshots, B snapshots, A restores)
    hs["tiny trivia+atomic: tight || loose, interpreter unoptimised"] = (trivia(TINY, "U", False, "a b"), ())
    hs["tiny trivia+atomic: tight || loose, generated"] = (trivia(TINY, "U", True, "a b"), ())

    SK = 'r = { (!("a" | "b") ~ ANY)* ~ ("a" | "b") }\ns = @{ (!^"ab" ~ ANY)* ~ ^"ab" }\n'

    def warmed(generated, first, second):
        def mk():
            from pest import Parser

            p = Parser.from_grammar(SK)
            obj = modes.Generated(p.generate()) if generated else p
            modes.observe(obj, "r", "a")      # warmed up: nothing is initialised lazily under contention any more
            modes.observe(obj, "s", "ab")
            return [lambda: modes.observe(obj, first[0], first[1], detail=True), lambda: modes.observe(obj, second[0], second[1], detail=True)]
        return mk

    # the skip idiom with two stops on one shared, warmed-up optimised parser: whatever the search keeps on the expression object
    # (an order of stops, a last hit) is shared by both threads
    hs["skip idiom, two stops: r || r, warmed-up optimised interpreter"] = (warmed(False, ("r", "xb"), ("r", "b")), ())
    hs["skip idiom, two stops: r || s, warmed-up optimised interpreter"] = (warmed(False, ("r", "xxa"), ("s", "xaB")), ())
    hs["skip idiom, two stops: r || r, generated from optimised"] = (warmed(True, ("r", "xb"), ("r", "b")), ())

    def with_factory():
        p = make("U", "g1")
        r1, t1 = PROBES["g1"][1]
        return [lambda: modes.observe(p, r1, t1, detail=True), lambda: (make("O", "g2"), "made")[1]]
    hs["parse || Parser.from_grammar(other, default optimizer)"] = (with_factory, (1,))
    return hs


def _sched_worker(payload):
    name, bound, cap, part, nparts = payload
    mk, atomic = harnesses()[name]
    seq = [b() for b in mk()]          # sequential observations on fresh objects
    seq2 = [b() for b in reversed(mk())][::-1]
    if seq != seq2:
        return name, {"executions": 0}, [{"kind": "sequential-order-matters", "expected": seq, "got": seq2}]
    stats, viol = sched.explore(mk, seq, bound=bound, atomic=atomic, max_executions=cap, part=part, nparts=nparts)
    return name, stats, viol[:20]


def _free_running(payload):
    """Smoke test without the tracer (never decides; a mismatch is still a violation with its inputs)."""
    import threading

    import sys

    iterations, = payload
    sys.setswitchinterval(1e-6)        # provoke as many switches as CPython will give
    p = make("O", "g1")
    m = modes.Generated(make("U", "g1").generate())
    want = {}
    for g_obj, label in ((p, "interp"), (m, "generated")):
        for r, t in PROBES["g1"]:
            want[(label, r, t)] = modes.observe(g_obj, r, t, detail=True)
    bad = []

    def body(seed):
        items = list(want.items())
        for i in range(iterations):
            (label, r, t), w = items[(i * 7 + seed) % len(items)]
            got = modes.observe(p if label == "interp" else m, r, t, detail=True)
            if got != w:
                bad.append({"kind": "free-running-mismatch", "probe": [label, r, t], "expected": w, "got": got})
                return

    ts = [threading.Thread(target=body, args=(s,)) for s in range(8)]
    for t in ts:
        t.start()
    for t in ts:
        t.join()
    return 8 * iterations, bad[:3]


def run(tier: str) -> int:
    b = BOUNDS[tier]
    rep = common.Report("C15", tier, "model_checking")
    # references: one pristine child per (kind, grammar)
    ref_payloads = [(k, g) for g in G for k in ("U", "O", "C", "GU", "GO", "GC")]
    ref = dict(common.parallel_map(_ref_one, ref_payloads, fresh=True))
    # reference self-check: computing it twice gives the same answer
    ref2 = dict(common.parallel_map(_ref_one, ref_payloads, fresh=True))
    if ref != ref2:
        raise common.HarnessError("isolated reference observations are not reproducible")
    # all histories up to the depth bound
    histories = [()]
    seen_h = {()}
    for pool in POOLS:
        frontier = [()]
        for _ in range(b["depth"]):
            nxt = []
            for h in frontier:
                for op in enabled(h, pool):
                    nxt.append(h + (op,))
            histories.extend(x for x in nxt if x not in seen_h)
            seen_h.update(nxt)
            frontier = nxt
    chunks = [histories[i::common.workers() * 4] for i in range(common.workers() * 4)]
    results = common.parallel_map(_history_worker, [(c, ref) for c in chunks if c], fresh=True, order_seed=common.seed())
    states = set()
    transitions = 0
    viol = []
    for out in results:
        for h, res in out:
            transitions += len(h)
            if res[0] == "error":
                raise common.HarnessError(f"history {h} could not be replayed: {res[1]}")
            fp_after, bad = res
            states.add((fp_after, len(bad) > 0))
            for label, got, want in bad:
                viol.append({"kind": "history-changes-result", "ops": [list(o) for o in h], "probe_object": label, "expected": _first_diff(want, got)[0], "got": _first_diff(want, got)[1]})
    viol.sort(key=lambda v: (len(v["ops"]), repr(v["ops"])))
    # schedules
    names = list(harnesses())
    cap = 60000
    payloads = []
    for n in names:
        bound = b["preemptions"]
        if n.startswith("tiny") and tier == "thorough":
            bound = max(bound, 2)
        nparts = 16 if bound >= 2 else 2
        payloads.extend((n, bound, cap, part, nparts) for part in range(nparts))
    sres = common.parallel_map(_sched_worker, payloads, fresh=True)
    sstats = {}
    for name, st, sv in sres:
        agg = sstats.setdefault(name, {})
        for k2, v2 in st.items():
            if isinstance(v2, bool):
                agg[k2] = agg.get(k2, False) or v2
            elif k2 == "max_steps":
                agg[k2] = max(agg.get(k2, 0), v2)
            else:
                agg[k2] = agg.get(k2, 0) + v2
        for v in sv:
            viol.append({"harness": name, "ops": [], **v})
    # (c) operation-level interleavings of two parser states
    from .. import bfs

    d2 = b["two_state_depth"]
    two = bfs.run(TwoStates(), d2, split_at=4 if d2 > 4 else None)
    for v in two["violations"][:3]:
        viol.append({"harness": "two ParserState objects, operation interleavings", "ops": [], "kind": "two-states-" + v["kind"], "history": v["ops"], "expected": v.get("expected"), "got": v.get("got"), "detail": v.get("detail")})
    (free_n, free_bad), = common.parallel_map(_free_running, [(b["free_iterations"],)], fresh=True)
    for v in free_bad:
        viol.append({"harness": "free-running", "ops": [], **v})
    listed = {}
    for fd in common.open_findings("C15"):
        for w in fd.get("witnesses", []):
            listed[repr(w.get("ops"))] = fd
    seen = 0
    for v in viol:
        fd = listed.get(repr(v.get("ops"))) if v.get("ops") else None
        if fd is not None:
            rep.known(fd)
            continue
        if seen < 12:
            rep.violation({"family": "histories" if "probe_object" in v else "schedules", **v})
        else:
            rep.violations.append(v)
        seen += 1
    regress = 0
    for fd in common.fixed_findings("C15"):
        for w in fd.get("witnesses", []):
            regress += 1
            if replay_case(w, quiet=True):
                rep.violation({"family": "fixed-witness", "finding": fd["id"], "kind": "regression", **w})
    executions = sum(s.get("executions", 0) for s in sstats.values())
    rep.coverage = {
        "states": len(states) + sum(s.get("distinct_outcomes", 0) for s in sstats.values()) + two["states"],
        "transitions": transitions + sum(s.get("scheduling_points", 0) for s in sstats.values()) + two["transitions"],
        "traces_validated_against_impl": len(histories) + executions,
        "evaluations": len(histories) + executions,
        "distinct_nontrivial": len(histories) + executions,
        "rule": "(a) every history over 14 operations - create an unoptimised / default-optimised / custom-pass parser for g1 or g2 (further pools, explored separately: g6 and g7 with case-insensitive literals that differ only in non-ASCII case; g5 with a choice-bodied WHITESPACE next to an ordinary choice with the same alternatives; g3 with implicit WHITESPACE, a rule called SKIP, skip idioms and a tagged reference, and g4 with skip idioms evaluated twice per parse and a case-insensitive stop), generate+import a module from the latest parser of a grammar, a succeeding parse, a failing parse, and a parse whose furthest failure comes from a negative predicate - up to the depth bound, "
                "each replayed from scratch in a forked pristine process; then every object created in the history, and fresh parsers/modules of every kind created after it, are probed with 9 calls per grammar (succeeding and failing, incl. predicate failures) and each probe "
                "(tree, or furthest_pos + expected/unexpected sets) must equal the one obtained in a process whose only history is the creation of that one parser. g1 and g2 use the same built-ins (ASCII_HEX_DIGIT, ASCII_ALPHA, NEWLINE, a Unicode property), the same rule names with different bodies and squashable choices. "
                "states = distinct (global-state fingerprint, verdict) pairs - counted, never used to prune. "
                "(b) two real threads sharing one parser / generated module under a cooperative scheduler that owns every line-level switch point in pest code: every schedule with at most the stated number of preemptions (both initial threads); "
                "each thread's observation must equal its sequential observation. (c) two ParserState objects (the per-parse state of two concurrent calls) under every interleaving of checkpoint/ok/restore/push/drop/atomic operations up to the stated depth, "
                "each compared with its own full-copy reference (explicit-state BFS with canonicalised states). Plus a free-running pass of 8 untraced threads (a smoke test that never decides silence, only reports a mismatch)",
        "samples": [{"history": [["mk", "U", "g1"], ["mk", "O", "g2"], ["bad", "g1"]]}, {"schedule": {"harness": names[0], "initial": 0, "switches": [17]}}],
        "exhaustive": not any(s.get("cap_hit") for s in sstats.values()),
        "histories": len(histories),
        "history_depth": b["depth"],
        "distinct_global_states": len({s[0] for s in states}),
        "schedules": sstats,
        "preemption_bound": b["preemptions"],
        "two_parser_states": {"depth": d2, "states": two["states"], "transitions": two["transitions"], "violating_transitions": two["violation_count"]},
        "free_running_parses": free_n,
        "fixed_witnesses_replayed": regress,
    }
    rep.assumptions = ["thread switches inside one source line are not enumerated (line-level scheduling points; C-level calls are atomic steps)",
                       "the thread that calls Parser.from_grammar in the parse||from_grammar harness runs as one atomic step placed at every point of the parsing thread",
                       "at most two threads"]
    return rep.finish()


def _first_diff(want, got):
    for i, (a, c) in enumerate(zip(want, got)):
        if a != c:
            return [i, list(a)], [i, list(c)]
    return list(want), list(got)


def _replay_history_child(payload):
    h, = payload
    ref_payloads = [(k, g) for g in G for k in ("U", "O", "C", "GU", "GO", "GC")]
    return h


def replay_case(case: dict, quiet: bool = False) -> bool:
    if case.get("ops"):
        h = tuple(tuple(o) for o in case["ops"])
        ref_payloads = [(k, g) for g in G for k in ("U", "O", "C", "GU", "GO", "GC")]
        ref = dict(common.parallel_map(_ref_one, ref_payloads, fresh=True))
        (out,) = common.parallel_map(_history_worker, [([h], ref)], fresh=True)
        (_, res), = out
        if not quiet:
            print("  history:", h)
            print("  result :", res[1] if res[0] != "error" else res)
        return res[0] == "error" or bool(res[1])
    name = case.get("harness")
    if case.get("history"):
        from . import c09

        m = TwoStates()
        impl, ref = m.new()
        for op in case["history"]:
            try:
                m.apply(impl, ref, op)
            except Exception as exc:  # noqa: BLE001
                if not quiet:
                    print(f"  {op}: raised {type(exc).__name__}")
                return True
            if m.observe(impl) != m.expect(ref):
                if not quiet:
                    print(f"  {op}: impl={m.observe(impl)} ref={m.expect(ref)}")
                return True
        return False
    if name in harnesses():
        mk, atomic = harnesses()[name]
        seq = [b() for b in mk()]
        ex = sched.Execution(mk(), case.get("initial", 0), set(case.get("switches", [])), atomic)
        res, _, _ = ex.run()
        if not quiet:
            print("  sequential:", seq)
            print("  scheduled :", res)
        return res != seq
    return False
