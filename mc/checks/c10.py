"""C10: the grammar front end accepts exactly pest v2 syntax with the denoted structure.

Oracle: pest's own meta-grammar (tests/grammars/meta.pest) executed by the reference model
(mc/metaref.py) - accept/reject, and the structure read off the meta-grammar's parse tree.
"""

from __future__ import annotations

import glob
import itertools
import os

from .. import common, metaref

TOKENS = ["a", "PUSH", "PUSH_LITERAL", "PEEK", "PEEK_ALL", "POP", "POP_ALL", "DROP", "POPx", '"s"', '^"s"', "'c'", "'\\n'", "..", "(", ")", "[", "]",
          "{", "}", ",", "2", "-1", "|", "~", "&", "!", "?", "*", "+", "#t =", "#tt =", "^", "'a'..'b'"]
HEADER_TOKENS = ["a", "=", "_", "@", "$", "!", "{", "}", '"s"', "///d\n", "//!d\n", "b"]
FILLERS = ["", " ", "\n", "/*c*/", "//c\n"]

BOUNDS = {"quick": {"K": 3, "H": 4, "layout_k": 2, "comment_len": 8, "site_k": 4}, "thorough": {"K": 4, "H": 5, "layout_k": 3, "comment_len": 11, "site_k": 5}}
COMMENT_SIGMA = "/*x"
SITE_TOKENS = ["a", "|", "~", "!", "?"]
SITES = [("", ""), ("(", ")"), ("PUSH(", ")"), ("a ~ (", ")"), ("((", "))"), ("PUSH((", "))"), ("(PUSH(", "))")]

EXTRA_TEXTS = [
    # raw (unescaped) line breaks and tabs inside literals: a literal holds exactly the characters between its quotes
    *[tmpl.format(c) for tmpl in ('r = {{ "a{}b" }}', 'r = {{ ^"a{}b" }}', 'r = {{ PUSH_LITERAL("{}") }}', "r = {{ '{}'..'z' }}", 'r = {{ "{}" }}\ns = {{ "x" }}', '//! d{}e\nr = {{ "x" }}')
      for c in ("\r\n", "\r", "\n", "\t", "\r\n\r\n", "\n\r", "\x0b", "\u2028", "\x00")],
    # every escape form in every kind of literal (a literal is decoded exactly once)
    *[tmpl.format(e) for tmpl in ('r = {{ "{}" }}', 'r = {{ ^"{}" }}', 'r = {{ PUSH_LITERAL("{}") }}', 'r = {{ "a{}b" }}', 'r = {{ ^"a{}b" }}', 'r = {{ ^"{}{}" }}'.replace("{}{}", "{0}{0}"))
      for e in ("\\\\", "\\x5c", "\\u{5C}", "\\\\n", "\\\\x41", "\\\\u{41}", "\\x5cn", "\\\"", "\\'", "\\0", "\\t", "\\\\\\\\", "\\u{5c}\\u{5c}")],
    *[f"r = {{ '{e}'..'{e}' }}" for e in ("\\\\", "\\x5c", "\\u{5C}", "\\'", "'", "\"")],
    # escapes, numbers, slices, tags, keyword prefixes, docs: deeper valid/invalid forms with a known structure
    'r = { "\\x41\\u{42}\\u{0043}\\u{000044}C" }', 'r = { "\\u{123}" }', 'r = { "\\u{12345}" }', 'r = { "\\u{1}" }', 'r = { "\\u{1234567}" }', 'r = { "\\x4" }', 'r = { "\\xZZ" }',
    'r = { "a\\0b\\\'c\\"d\\\\e\\nf\\rg\\th" }', 'r = { "\\b" }', 'r = { "\\/" }', 'r = { "\\f" }', "r = { '\\''..'\\\\' }", "r = { '\\x41'..'\\u{5A}' }", "r = { '\\0'..'\\t' }", "r = { 'ab'..'c' }", "r = { ''..'c' }",
    "r = { 'a'..'b'..'c' }", "r = { 'a' ..'b' }", "r = { 'a'.. 'b' }", "r = { 'a'xx'b' }", "r = { 'a'. .'b' }", 'r = { ^ "s" }', 'r = { ^"s"? }', 'r = { ^^"s" }',
    "r = { a{2} }", "r = { a{ 2 } }", "r = { a{2,} }", "r = { a{,2} }", "r = { a{2,3} }", "r = { a{ 2 , 3 } }", "r = { a{02} }", "r = { a{} }", "r = { a{,} }", "r = { a{2,3,4} }", "r = { a{-1} }", "r = { a{2}{3} }", "r = { a{2}? }",
    "r = { PEEK[..] }", "r = { PEEK[1..] }", "r = { PEEK[..2] }", "r = { PEEK[1..2] }", "r = { PEEK[-1..-2] }", "r = { PEEK[ 1 .. 2 ] }", "r = { PEEK [..] }", "r = { PEEK[-0..] }", "r = { PEEK[-01..] }", "r = { PEEK[01..] }",
    "r = { PEEK[+1..] }", "r = { PEEK[1...2] }", "r = { PEEK[] }", "r = { PEEK[1] }", "r = { PEEK[..]? }", "r = { PEEK[..] ~ PEEK }", "r = { PEEK_ALL[..] }", "r = { PEEK? }",
    "r = { #t = a }", "r = { #tt = a }", "r = { #_t = a }", "r = { #t1 = a }", "r = { #1t = a }", "r = { #t= a }", "r = { #t =a }", "r = { #t a }", "r = { # t = a }", "r = { #t = #u = a }", "r = { #t = !a* }", "r = { #t = (a ~ b)+ }",
    'r = { #t = "s" }', "r = { a ~ #t = b }", "r = { !#t = a }",
    "r = { POPPER }", "r = { PEEKx }", "r = { DROPS }", "r = { PEEK_ALLx }", "r = { POP_ALLx }", "r = { PUSHx }", "r = { PUSH_LITERALx }", "r = { PUSH }", "r = { PUSH(a) }", "r = { PUSH (a) }", "r = { PUSH( a | b ) }", "r = { PUSH() }",
    'r = { PUSH_LITERAL("s") }', 'r = { PUSH_LITERAL ( "s" ) }', "r = { PUSH_LITERAL(a) }", 'r = { PUSH_LITERAL(^"s") }', 'r = { PUSH_LITERAL("s" ~ "t") }', "r = { _PUSH }", "r = { xPUSH }", "PUSH = { a }", "PUSHx = { a }", "POP = { a }",
    "r = { &a }", "r = { !a }", "r = { &!a }", "r = { !&a }", "r = { !!a }", "r = { &&a }", "r = { & a }", "r = { a?* }", "r = { a*? }", "r = { a+* }", "r = { a ? }", "r = { a?{2} }", "r = { (a)?*+ }", "r = { !a?* }",
    "r = { | a }", "r = { | a | b }", "r = { || a }", "r = { a | | b }", "r = { a | }", "r = { a ~ }", "r = { ~ a }", "r = { a b }", "r = { (a) }", "r = { ((a)) }", "r = { () }", "r = { (a }", "r = { a) }", "r = { a ~ b | c ~ d }", "r = { a | b ~ c | d }",
    "r = { a ~ (b | c) ~ d }", "r = { }", "r = {}", "r = { a } s = { b }", "r = { a }s = { b }", "r={a}", "r = _{ a }", "r = @{ a }", "r = ${ a }", "r = !{ a }", "r = _ { a }", "r = _@{ a }", "r = %{ a }", "r _= { a }",
    "_r = { a }", "r1 = { a }", "1r = { a }", "r-x = { a }", "r = { a-b }", "r = { a1 }", "r = { _ }", "é = { a }", "r = { é }", 'r = { "é" }',
    "/// d\nr = { a }", "///d\nr = { a }", "///  d\nr = { a }", "///\nr = { a }", "/// d\n/// e\nr = { a }", "/// d\n\nr = { a }", "/// d\n// c\nr = { a }", "r = { a }\n/// d", "r = { a } /// d\ns = { b }", "//// d\nr = { a }",
    "//! g\nr = { a }", "//!g\n//! h\nr = { a }", "//! g", "//!", "r = { a }\n//! g", "/// d\n//! g\nr = { a }", "//! g\n/// d\nr = { a }", "// c\n//! g\nr = { a }", "/* c */ //! g\nr = { a }", "//! g\r\nr = { a }", "/// d\r\nr = { a }",
    "r = { a } // c", "r = { a } /* c */", "r = { a /* c */ }", "r = { a // c\n }", "r = { /* /* nested */ */ a }", "r = { /* unterminated a }", "r = { a } /*", "r = { a /*/ }", "r = { a /**/ }", "/**/r = { a }", "r = { \"/* not a comment */\" }",
    "r = { a }\r\ns = { b }", "r = { a\r\n}", "r = {\ta\t}", "r = { a\x0c}", "r = { a\x0b}", "r = { a }", "﻿r = { a }",
    'r = { "a', 'r = { "a\n" }', 'r = { "a\\', "r = { 'a }", "r = { '' }", "r = { 'a'..'b }", 'r = { "" }', 'r = { ^"" }', 'r = { "\\"" }',
]


def to_gast(e):
    """python-pest Expression objects -> gast (the adapter; the property's own observation point)."""
    from pest.grammar import expressions as X
    from pest.grammar.rule import BuiltInRule

    name = type(e).__name__
    tag = getattr(e, "tag", None)

    def wrap(node):
        return ("tag", tag, node) if tag else node

    try:
        if isinstance(e, BuiltInRule):
            return ("ref", e.name)
        if isinstance(e, X.String):
            return wrap(("str", e.value))
        if isinstance(e, X.CIString):
            return wrap(("ci", e.value))
        if isinstance(e, X.Range):
            return wrap(("range", e.start, e.stop))
        if isinstance(e, X.Identifier):
            kw = {"PEEK": ("peek",), "POP": ("pop",), "DROP": ("drop",), "PEEK_ALL": ("peekall",), "POP_ALL": ("popall",)}
            return wrap(kw.get(e.value, ("ref", e.value)))
        if isinstance(e, X.Sequence):
            return wrap(("seq", tuple(to_gast(c) for c in e.expressions)))
        if isinstance(e, X.Choice):
            return wrap(("alt", tuple(to_gast(c) for c in e.expressions)))
        if isinstance(e, X.Group):
            return wrap(("grp", to_gast(e.expression)))
        if isinstance(e, X.Optional):
            return wrap(("opt", to_gast(e.expression)))
        if isinstance(e, X.Repeat):
            return wrap(("star", to_gast(e.expression)))
        if isinstance(e, X.RepeatOnce):
            return wrap(("plus", to_gast(e.expression)))
        if isinstance(e, X.RepeatExact):
            return wrap(("exact", to_gast(e.expression), e.number))
        if isinstance(e, X.RepeatMin):
            return wrap(("min", to_gast(e.expression), e.number))
        if isinstance(e, X.RepeatMax):
            return wrap(("max", to_gast(e.expression), e.number))
        if isinstance(e, X.RepeatMinMax):
            return wrap(("minmax", to_gast(e.expression), e.min, e.max))
        if isinstance(e, X.PositivePredicate):
            return wrap(("and", to_gast(e.expression)))
        if isinstance(e, X.NegativePredicate):
            return wrap(("not", to_gast(e.expression)))
        if isinstance(e, X.Push):
            return wrap(("push", to_gast(e.expression)))
        if isinstance(e, X.PushLiteral):
            return wrap(("pushlit", e.value))
        if isinstance(e, X.Peek):
            return wrap(("peek",))
        if isinstance(e, X.Pop):
            return wrap(("pop",))
        if isinstance(e, X.Drop):
            return wrap(("drop",))
        if isinstance(e, X.PeekAll):
            return wrap(("peekall",))
        if isinstance(e, X.PopAll):
            return wrap(("popall",))
        if isinstance(e, X.PeekSlice):
            return wrap(("slice", e.start, e.stop))
    except AttributeError as exc:
        raise common.HarnessError(f"adapter cannot read {name}: {exc}") from None
    raise common.HarnessError(f"adapter does not know expression class {name}")


NO_PAIR = {"str", "ci", "range", "pushlit", "peek", "pop", "drop", "peekall", "popall", "slice"}


def norm(e):
    """Structure modulo associativity of ~ and |, Group nodes, and the position of a tag inside its term.

    A tag is sunk through prefix/postfix operators to the primary it labels; a tag on a primary that can never
    produce a pair (a literal, a range, a stack terminal) labels nothing observable and is dropped.
    """
    def sink(tag, x):
        k = x[0]
        if k in ("opt", "star", "plus", "and", "not"):
            return (k, sink(tag, x[1]))
        if k in ("exact", "min", "max", "minmax"):
            return (k, sink(tag, x[1])) + tuple(x[2:])
        if k == "grp":
            return sink(tag, x[1]) if x[1][0] in ("opt", "star", "plus", "and", "not", "exact", "min", "max", "minmax", "grp") or x[1][0] not in ("seq", "alt") else ("tag", tag, x)
        if k in NO_PAIR:
            return x
        if k == "tag":
            return ("tag", tag, sink(x[1], x[2]))
        return ("tag", tag, x)

    def walk(x):
        k = x[0]
        if k == "tag":
            return sink(x[1], walk(x[2]))
        if k in ("seq", "alt"):
            return (k, tuple(walk(c) for c in x[1]))
        if k in ("grp", "opt", "star", "plus", "and", "not", "push"):
            return (k, walk(x[1]))
        if k in ("exact", "min", "max", "minmax"):
            return (k, walk(x[1])) + tuple(x[2:])
        return x

    return metaref.normalize(walk(e))


def judge(text: str, orc) -> dict | None:
    """Compare from_grammar(text, optimizer=None) with the meta-grammar oracle. None = agree."""
    from pest import Parser
    from pest.grammar.exceptions import PestGrammarError
    from pest.grammar.rule import BuiltInRule, modifier_to_str

    den = orc.denote(text)
    try:
        p = Parser.from_grammar(text, optimizer=None)
        err = None
    except PestGrammarError as exc:
        p, err = None, str(exc).split("\n")[0][:80]
    except RecursionError:
        p, err = None, "RecursionError"
    except Exception as exc:  # noqa: BLE001
        p, err = None, f"{type(exc).__name__}: {str(exc)[:60]}"
    if den is None and p is None:
        return None
    if den is None:
        return {"kind": "accepts-invalid", "expected": "rejected by the meta-grammar", "got": "Parser"}
    if p is None:
        return {"kind": "rejects-valid", "expected": "accepted by the meta-grammar", "got": err}
    first = compare(p, den)
    if first is not None:
        return first
    # history: the same text loaded with the default optimizer in between must leave both unoptimised parsers as the text denotes
    try:
        Parser.from_grammar(text)
    except Exception:  # noqa: BLE001
        return None  # what the optimizer may raise is C11's and C02's business
    for label, q in (("the parser built before an optimised load of the same text", p), ("a parser built after an optimised load of the same text", None)):
        try:
            q = q or Parser.from_grammar(text, optimizer=None)
            again = compare(q, den)
        except common.HarnessError as exc:
            again = {"kind": "struct:expression", "expected": "the structure the text denotes", "got": str(exc)[:200]}
        except Exception as exc:  # noqa: BLE001
            again = {"kind": "rejects-valid", "expected": "accepted by the meta-grammar", "got": f"{type(exc).__name__}: {str(exc)[:60]}"}
        if again is not None:
            again["kind"] += ":after-optimised-load"
            again["history"] = label
            return again
    return None


def compare(p, den) -> dict | None:
    """The rules of parser p against the denotation (rules, grammar doc) read off the meta-grammar's parse tree."""
    from pest.grammar.rule import BuiltInRule, modifier_to_str

    rules, gdoc = den
    names = [r[0] for r in rules]
    if len(set(names)) != len(names):
        return None  # duplicate definitions: no structure is denoted (pest rejects them in a later pass)
    if any(isinstance(b, tuple) and _has_badcp(b) for _, _, b, _ in rules):
        return None  # a literal above U+10FFFF is not denotable (pest rejects it when it builds the AST)
    got_rules = {n: r for n, r in p.rules.items() if not isinstance(r, BuiltInRule)}
    if list(got_rules) != [n for n in names if n not in ()] and set(got_rules) != set(names):
        return {"kind": "struct:rule-names", "expected": names, "got": list(got_rules)}
    if list(p.doc or []) != list(gdoc):
        return {"kind": "struct:grammar-doc", "expected": list(gdoc), "got": list(p.doc or [])}
    for n, m, b, doc in rules:
        r = p.rules[n]
        if isinstance(r, BuiltInRule):
            return {"kind": "struct:builtin-shadowing", "expected": f"user rule {n}", "got": "built-in kept"}
        gm = modifier_to_str(r.modifier)
        if gm != m:
            return {"kind": "struct:modifier", "expected": m, "got": gm}
        if tuple(r.doc or ()) != tuple(doc):
            return {"kind": "struct:rule-doc", "expected": list(doc), "got": list(r.doc or ())}
        want = norm(b)
        got = norm(to_gast(r.expression))
        if want != got:
            return {"kind": "struct:expression", "expected": repr(want)[:300], "got": repr(got)[:300]}
    return None


def _has_badcp(e):
    if e == ("BADCP",):
        return True
    return any(isinstance(c, tuple) and _has_badcp(c) for c in e)


def _chunk(payload):
    kind = payload[0]
    orc = metaref.oracle()
    if kind == "bodies":
        _, k, firsts = payload
        texts = ("r = { " + " ".join((f,) + t) + " }" for f in firsts for t in itertools.product(TOKENS, repeat=k - 1))
        fam = f"bodies(k={k})"
    elif kind == "headers":
        _, k, firsts = payload
        texts = (" ".join((f,) + t) for f in firsts for t in itertools.product(HEADER_TOKENS, repeat=k - 1))
        fam = f"headers(k={k})"
    elif kind == "layout":
        _, k, firsts = payload

        def gen():
            for f in firsts:
                for t in itertools.product(TOKENS, repeat=k - 1):
                    toks = ["r", "=", "{"] + [x for tok in (f,) + t for x in tok.split(" ")] + ["}"]
                    base = " ".join(toks)
                    if not orc.accepts(base):
                        continue
                    for fill in FILLERS:
                        if fill != " ":
                            yield fill.join(toks)
                        for g in range(len(toks) - 1):
                            if fill != " ":
                                yield " ".join(toks[:g + 1]) + fill + " ".join(toks[g + 1:])
        texts = gen()
        fam = f"layout(k={k})"
    elif kind == "texts":
        _, texts, fam = payload
    else:
        raise ValueError(kind)
    fails = []
    stats = {"evaluations": 0, "accepted": 0}
    for text in texts:
        stats["evaluations"] += 1
        if orc.accepts(text):
            stats["accepted"] += 1
        f = judge(text, orc)
        if f is not None:
            f.update(text=text, family=fam)
            fails.append(f)
    return stats, fails


def run(tier: str) -> int:
    import sys

    sys.setrecursionlimit(max(sys.getrecursionlimit(), 20000))
    b = BOUNDS[tier]
    rep = common.Report("C10", tier, "model_checking")
    payloads = []
    for k in range(1, b["K"] + 1):
        step = len(TOKENS) if k < 3 else (2 if k == 3 else 1)
        for i in range(0, len(TOKENS), step):
            payloads.append(("bodies", k, TOKENS[i:i + step]))
    payloads.append(("texts", ["r = {  }"], "bodies(k=0)"))
    for k in range(1, b["H"] + 1):
        step = len(HEADER_TOKENS) if k < 4 else 1
        for i in range(0, len(HEADER_TOKENS), step):
            payloads.append(("headers", k, HEADER_TOKENS[i:i + step]))
    for k in range(1, b["layout_k"] + 1):
        for i in range(0, len(TOKENS), 4):
            payloads.append(("layout", k, TOKENS[i:i + 4]))
    for i in range(0, len(EXTRA_TEXTS), 40):
        payloads.append(("texts", EXTRA_TEXTS[i:i + 40], "hand-picked"))
    # every PEEK slice over a set of bound spellings (incl. zero, leading zeros, negative zero)
    bounds = ["", "0", "1", "-1", "00", "01", "-0", "-01", "2", "+1"]
    payloads.append(("texts", [f"r = {{ PEEK[{a}..{b}] }}" for a in bounds for b in bounds], "slices"))
    # every repetition bound spelling
    nums = ["", "0", "1", "2", "00", "02", "-1", "+1", "1_0"]
    payloads.append(("texts", [f"r = {{ a{{{x}}} }}" for x in nums] + [f"r = {{ a{{{x},{y}}} }}" for x in nums for y in nums], "repeat-bounds"))
    # every escape body over a small character set (hex digits of both cases, non-hex letters, signs, blanks, separators)
    E = "09afAFgG_+- x{}"
    bodies = [""] + ["".join(t) for k in (1, 2, 3) for t in itertools.product(E, repeat=k)]
    esc = []
    for b_ in bodies:
        esc.append('r = { "\\x' + b_ + '" }')
        esc.append('r = { "\\u{' + b_ + '}" }')
        if len(b_) <= 2:
            esc.append("r = { '\\x" + b_ + "'..'z' }")
            esc.append("r = { '\\u{" + b_ + "}'..'z' }")
            esc.append('r = { ^"\\u{' + b_ + '}" }')
            esc.append('r = { PUSH_LITERAL("\\x' + b_ + '") }')
    for i in range(0, len(esc), 700):
        payloads.append(("texts", esc[i:i + 700], "escape-bodies"))
    # comment shapes: every string over {/,*,x} before the first rule and inside a rule body (nested, overlapping and unclosed delimiters)
    cms = ["".join(t) for k in range(0, b["comment_len"] + 1) for t in itertools.product(COMMENT_SIGMA, repeat=k)]
    ctexts = [c + 'a={"x"}' for c in cms] + ['a={"x"' + c + "}" for c in cms]
    if tier == "thorough":
        ctexts += ["a={b" + c + "\n}" for c in cms if len(c) <= 8]
    for i in range(0, len(ctexts), 400):
        payloads.append(("texts", ctexts[i:i + 400], "comment-shapes"))
    # every place a whole expression may stand (rule body, group, PUSH argument, nested): every short token sequence there
    seqs = [" ".join(t) for k in range(0, b["site_k"] + 1) for t in itertools.product(SITE_TOKENS, repeat=k)]
    stexts = [f"r = {{ {o} {q} {c} }}" for o, c in SITES for q in seqs]
    for i in range(0, len(stexts), 400):
        payloads.append(("texts", stexts[i:i + 400], "expression-sites"))
    files = sorted(glob.glob(os.path.join(common.REPO, "tests", "grammars", "*.pest")) + glob.glob(os.path.join(common.REPO, "examples", "*", "*.pest")))
    for f in files:
        payloads.append(("texts", [open(f, encoding="utf-8").read()], f"bundled({os.path.relpath(f, common.REPO)})"))
    results = common.parallel_map(_chunk, payloads, fresh=False, order_seed=common.seed())
    agg = {"evaluations": 0, "accepted": 0}
    fails = []
    for st, fl in results:
        for k2, v in st.items():
            agg[k2] += v
        fails.extend(fl)
    regress = 0
    orc = metaref.oracle()
    for fnd in common.fixed_findings("C10"):
        for w in fnd.get("witnesses", []):
            regress += 1
            if judge(w["text"], orc) is not None:
                rep.violation({"family": "fixed-witness", "finding": fnd["id"], "kind": "regression", **w})
    listed = {w["text"]: f for f in common.open_findings("C10") for w in f.get("witnesses", [])}
    fails.sort(key=lambda c: (len(c["text"]), c["text"]))
    groups: dict = {}
    for c in fails:
        f = listed.get(c["text"])
        if f is not None:
            rep.known(f)
            continue
        groups.setdefault((c["kind"], str(c["got"])[:40]), []).append(c)
    order = sorted(groups.items(), key=lambda kv: (len(kv[1][0]["text"]), kv[0]))
    for _, cs in order:
        rep.violation(cs[0])
    for _, cs in order:
        for c in cs[1:]:
            rep.violations.append(c)
    if os.environ.get("VERIF_TRIAGE"):
        for key, cs in order[: int(os.environ.get("VERIF_TRIAGE_N", "60"))]:
            print(f"TRIAGE [{key[0]} | {key[1]}] x{len(cs)} smallest: {cs[0]['text']!r} expected={str(cs[0]['expected'])[:100]} got={str(cs[0]['got'])[:100]}")
    rep.coverage = {
        "states": agg["evaluations"],
        "transitions": agg["evaluations"],
        "traces_validated_against_impl": agg["evaluations"],
        "evaluations": agg["evaluations"],
        "distinct_nontrivial": agg["accepted"],
        "rule": f"(a) every rule body r = {{ t1 ... tk }} over a {len(TOKENS)}-token alphabet (identifiers, every stack keyword, a keyword-prefixed identifier, string/insensitive/char literals, '..', all brackets, numbers, all operators, one- and two-letter tags) joined by single spaces, k <= K; "
                f"(b) every rule header / top-level token sequence over {len(HEADER_TOKENS)} tokens (names, '=', the four modifiers, braces, ///, //! docs), k <= H; "
                "(c) layout: for every accepted body with k <= layout_k tokens, each inter-token gap in turn - and all gaps at once - set to '', newline, a block comment, a line comment; "
                "(d) every PEEK slice and every repetition bound over ten spellings of the bounds (zero, leading zeros, negative zero, signs), every \\x / \\u{} escape body of up to three characters over a 15-character set in string, insensitive-string, character and PUSH_LITERAL literals, and ~250 hand-picked texts (escape forms, repetition bounds, PEEK slices, tags, keyword prefixes, prefix/postfix chains, docs, comments, line endings); (e) the bundled .pest files; "
                f"(f) comment shapes: every string of up to {b['comment_len']} characters over {{/,*,x}} placed before the first rule and inside a rule body; (g) expression sites: every sequence of up to {b['site_k']} tokens over {SITE_TOKENS} "
                "inside a rule body, a group, a PUSH argument and nestings of those. "
                "Oracle: from_grammar(text, optimizer=None) returns a Parser iff the meta-grammar, executed by the reference model, accepts the text; if both accept, rule names, modifiers, rule and grammar docs and the expression structure "
                "(modulo ~/| associativity, Group nodes and tag position inside a term) equal the structure read off the meta-grammar's parse tree. History: for every accepted text the same text is then loaded with the default optimizer, after which the first parser and a newly built optimizer=None parser must both still hold the denoted structure. states = texts judged; a text is non-trivial when the meta-grammar accepts it",
        "samples": [{"text": t} for t in common.pick_samples(EXTRA_TEXTS, 5)],
        "exhaustive": True,
        "bounds": b,
        "accepted_by_meta_grammar": agg["accepted"],
        "disagreements": len(fails),
        "bundled_files": len(files),
        "fixed_witnesses_replayed": regress,
        "oracle_self_check": "meta.pest fixpoint: the meta-grammar accepts its own text and denotes the structure the bootstrap parser read (checked at start-up, HarnessError otherwise)",
    }
    rep.assumptions = ["mc/refpeg.py executes meta.pest faithfully (validated on the pinned pest-suite samples and by the fixpoint)",
                       "texts that define a rule twice, or hold a code point above U+10FFFF, are judged on accept/reject only",
                       "a tag on a primary that cannot produce a pair (literal, range, stack terminal) is unobservable and ignored"]
    return rep.finish()


def replay_case(case: dict) -> bool:
    f = judge(case["text"], metaref.oracle())
    print("  ", f)
    return f is not None
